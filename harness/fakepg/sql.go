package fakepg

import (
	"fmt"
	"slices"
	"sort"
	"strconv"
	"strings"
)

// ---------------------------------------------------------------- lexer

type tok struct {
	k    byte // 'i' identifier/keyword (lower-cased), 'q' quoted identifier, 'p' $n, 'n' integer, 's' string, 'o' operator/punctuation
	s    string
	a, b int // byte range in the source
}

func isIdent(c byte, first bool) bool {
	return c == '_' || c >= 'a' && c <= 'z' || c >= 'A' && c <= 'Z' || !first && c >= '0' && c <= '9'
}

func lex(src string) ([]tok, bool) {
	var out []tok
	for i := 0; i < len(src); {
		c, j := src[i], i+1
		switch {
		case c == ' ' || c == '\t' || c == '\n' || c == '\r':
		case strings.HasPrefix(src[i:], "--"):
			for j < len(src) && src[j] != '\n' {
				j++
			}
		case strings.HasPrefix(src[i:], "/*"):
			if j = strings.Index(src[i:], "*/"); j < 0 {
				return nil, false
			}
			j += i + 2
		case isIdent(c, true):
			for j < len(src) && isIdent(src[j], false) {
				j++
			}
			out = append(out, tok{'i', strings.ToLower(src[i:j]), i, j})
		case c == '"':
			if j = strings.IndexByte(src[i+1:], '"'); j <= 0 {
				return nil, false
			}
			j += i + 2
			out = append(out, tok{'q', src[i+1 : j-1], i, j})
		case c == '\'':
			var sb strings.Builder
			for ; ; j++ {
				if j >= len(src) {
					return nil, false
				}
				if src[j] == '\'' {
					if j++; j >= len(src) || src[j] != '\'' {
						break
					}
				}
				sb.WriteByte(src[j])
			}
			out = append(out, tok{'s', sb.String(), i, j})
		case c == '$' || c >= '0' && c <= '9':
			for j < len(src) && src[j] >= '0' && src[j] <= '9' {
				j++
			}
			if c == '$' && j == i+1 {
				return nil, false
			}
			out = append(out, tok{map[bool]byte{true: 'p', false: 'n'}[c == '$'], strings.TrimPrefix(src[i:j], "$"), i, j})
		default:
			if two := src[i:min(i+2, len(src))]; two == ">=" || two == "<=" || two == "<>" || two == "!=" {
				j = i + 2
			}
			out = append(out, tok{'o', src[i:j], i, j})
		}
		i = j
	}
	return out, true
}

// ---------------------------------------------------------------- AST

type operand struct {
	kind byte   // 'p' parameter, 'l' literal, 'c' column, 'f' function call
	n    int    // parameter number
	v    Value  // literal value: nil | bool | string | Num
	name string // column / function name
	args []operand
}

type cond struct { // l op r; op is one of = <> < <= > >= any isnull notnull
	l, r operand
	op   string
}

type item struct {
	star bool
	e    operand
	as   string
}

type okey struct {
	col  string
	desc bool
}

type sel struct {
	distinct []string
	items    []item
	from     string
	where    []cond
	order    []okey
	limit    *operand
}

// prune is the PruneTask shape:
// delete from T where (cols) not in (select inner from (select avail..., row_number()
// over (partition by part order by ord) as rn from src) as s where rn op n)
type prune struct {
	cols, inner, avail, part []string
	src, rn, op              string
	ord                      okey
	n                        operand
}

type coldef struct {
	name, typ string
	def       Value
}

type stmt struct {
	kind  string // event kind: begin | commit | rollback | exec | query | copy
	verb  string // set noop insert delete select prune copy createtable createindex addcolumn droptable
	sql   string
	table string
	err   *pgErr // set if the statement could not be parsed
	cols  []string
	vals  []operand
	where []cond
	sel   *sel
	cte   *sel
	cteAs string
	pr    *prune
	defs  []coldef
	idx   Index
	ifne  bool // IF [NOT] EXISTS given
}

// ---------------------------------------------------------------- parser

type parser struct {
	t []tok
	i int
}

type parseFail struct{}

func (p *parser) fail() { panic(parseFail{}) }

func (p *parser) peek() tok {
	if p.i < len(p.t) {
		return p.t[p.i]
	}
	return tok{}
}

// kw consumes the given keyword sequence if it is next (all or nothing).
func (p *parser) kw(words ...string) bool {
	for j, w := range words {
		if p.i+j >= len(p.t) || p.t[p.i+j].k != 'i' || p.t[p.i+j].s != w {
			return false
		}
	}
	p.i += len(words)
	return true
}

func (p *parser) need(words ...string) {
	if !p.kw(words...) {
		p.fail()
	}
}

func (p *parser) op(s string) bool {
	if t := p.peek(); t.k == 'o' && t.s == s {
		p.i++
		return true
	}
	return false
}

func (p *parser) needOp(s string) {
	if !p.op(s) {
		p.fail()
	}
}

var reserved = map[string]bool{"select": true, "from": true, "where": true, "order": true, "limit": true, "and": true, "or": true,
	"as": true, "group": true, "by": true, "on": true, "not": true, "in": true, "is": true, "any": true, "asc": true, "desc": true,
	"values": true, "into": true, "distinct": true, "with": true, "join": true, "left": true, "union": true, "having": true}

func (p *parser) ident() string {
	t := p.peek()
	if t.k != 'q' && (t.k != 'i' || reserved[t.s]) {
		p.fail()
	}
	p.i++
	return t.s
}

// name parses an optionally schema-qualified relation name; "public." is dropped.
func (p *parser) name() string {
	n := p.ident()
	if p.op(".") {
		if n == "public" {
			return p.ident()
		}
		return n + "." + p.ident()
	}
	return n
}

func (p *parser) bareList() []string {
	out := []string{p.ident()}
	for p.op(",") {
		out = append(out, p.ident())
	}
	return out
}

// identList parses "( a [asc|desc], b ... )".
func (p *parser) identList() []string {
	p.needOp("(")
	var out []string
	for {
		out = append(out, p.ident())
		_ = p.kw("asc") || p.kw("desc")
		if !p.op(",") {
			break
		}
	}
	p.needOp(")")
	return out
}

func (p *parser) operand() operand {
	t := p.peek()
	p.i++
	switch t.k {
	case 'p':
		if n, _ := strconv.Atoi(t.s); n >= 1 && n < 1000 {
			return operand{kind: 'p', n: n}
		}
	case 'n':
		n, _ := normNum(t.s)
		return operand{kind: 'l', v: n}
	case 's':
		return operand{kind: 'l', v: t.s}
	case 'o':
		if nx := p.peek(); t.s == "-" && nx.k == 'n' {
			p.i++
			n, _ := normNum("-" + nx.s)
			return operand{kind: 'l', v: n}
		}
	case 'q':
		return operand{kind: 'c', name: t.s}
	case 'i':
		switch {
		case t.s == "true" || t.s == "false":
			return operand{kind: 'l', v: t.s == "true"}
		case t.s == "null":
			return operand{kind: 'l'}
		case reserved[t.s]:
		case p.op("("):
			f := operand{kind: 'f', name: t.s}
			for !p.op(")") {
				if len(f.args) > 0 {
					p.needOp(",")
				}
				f.args = append(f.args, p.operand())
			}
			return f
		default:
			return operand{kind: 'c', name: t.s}
		}
	}
	p.fail()
	return operand{}
}

var cmpOps = map[string]string{"=": "=", "<>": "<>", "!=": "<>", "<": "<", "<=": "<=", ">": ">", ">=": ">="}

func (p *parser) conds() []cond {
	var cs []cond
	for {
		c := cond{l: p.operand()}
		t := p.peek()
		switch {
		case p.kw("is"):
			c.op = map[bool]string{true: "notnull", false: "isnull"}[p.kw("not")]
			p.need("null")
		case t.k == 'o' && cmpOps[t.s] != "":
			p.i++
			if c.op = cmpOps[t.s]; c.op == "=" && p.kw("any") {
				c.op = "any"
				p.needOp("(")
				c.r = p.operand()
				p.needOp(")")
			} else {
				c.r = p.operand()
			}
		default:
			p.fail()
		}
		if cs = append(cs, c); !p.kw("and") {
			return cs
		}
	}
}

func (p *parser) orderKey() okey {
	k := okey{col: p.ident()}
	if k.desc = p.kw("desc"); !k.desc {
		p.kw("asc")
	}
	return k
}

func (p *parser) sel() *sel {
	p.need("select")
	s := &sel{}
	if p.kw("distinct") {
		p.need("on")
		s.distinct = p.identList()
	}
	for {
		var it item
		if it.star = p.op("*"); !it.star {
			it.e = p.operand()
			if t := p.peek(); p.kw("as") || t.k == 'q' || t.k == 'i' && !reserved[t.s] {
				it.as = p.ident()
			}
		}
		if s.items = append(s.items, it); !p.op(",") {
			break
		}
	}
	if p.kw("from") {
		s.from = p.name()
	}
	if p.kw("where") {
		s.where = p.conds()
	}
	if p.kw("order") {
		p.need("by")
		s.order = append(s.order, p.orderKey())
		for p.op(",") {
			s.order = append(s.order, p.orderKey())
		}
	}
	if p.kw("limit") {
		o := p.operand()
		s.limit = &o
	}
	return s
}

func (p *parser) prune() *prune {
	pr := &prune{cols: p.identList()}
	p.need("not", "in")
	p.needOp("(")
	p.need("select")
	pr.inner = p.bareList()
	p.need("from")
	p.needOp("(")
	p.need("select")
	for {
		if p.kw("row_number") {
			p.needOp("(")
			p.needOp(")")
			p.need("over")
			p.needOp("(")
			p.need("partition", "by")
			pr.part = p.bareList()
			p.need("order", "by")
			pr.ord = p.orderKey()
			p.needOp(")")
			p.kw("as")
			pr.rn = p.ident()
		} else {
			pr.avail = append(pr.avail, p.ident())
		}
		if !p.op(",") {
			break
		}
	}
	p.need("from")
	pr.src = p.name()
	p.needOp(")")
	p.kw("as")
	p.ident()
	p.need("where")
	cs := p.conds()
	if len(cs) != 1 || pr.rn == "" || cs[0].l.kind != 'c' || cs[0].l.name != pr.rn || len(cs[0].op) > 2 {
		p.fail()
	}
	pr.op, pr.n = cs[0].op, cs[0].r
	p.needOp(")")
	return pr
}

// coldef parses "name type[(n,..)] [not null | null | primary key | unique | default literal-or-f()]...".
// Constraints are parsed and ignored; a function default such as now() is stored as NULL.
func (p *parser) coldef() coldef {
	d := coldef{name: p.ident()}
	if t := p.peek(); t.k != 'i' {
		p.fail()
	} else {
		d.typ, p.i = t.s, p.i+1
	}
	for open := p.op("("); open && !p.op(")"); p.i++ {
		if t := p.peek(); t.k != 'n' && (t.k != 'o' || t.s != ",") {
			p.fail()
		}
	}
	for {
		switch {
		case p.kw("not", "null"), p.kw("null"), p.kw("primary", "key"), p.kw("unique"):
		case p.kw("default"):
			if o := p.operand(); o.kind == 'f' && len(o.args) == 0 {
			} else if d.def = o.v; o.kind != 'l' {
				p.fail()
			}
		default:
			return d
		}
	}
}

func (p *parser) stmt(st *stmt) {
	t := p.peek()
	if t.k != 'i' {
		p.fail()
	}
	txn := func(kind string) {
		st.kind = kind
		_ = p.kw("transaction") || p.kw("work")
	}
	switch p.i++; t.s {
	case "set":
		st.verb, p.i = "set", len(p.t)
	case "begin":
		st.kind, p.i = "begin", len(p.t) // isolation level etc. are ignored
	case "start":
		p.need("transaction")
		st.kind, p.i = "begin", len(p.t)
	case "commit", "end":
		txn("commit")
	case "rollback", "abort":
		txn("rollback")
	case "insert":
		p.need("into")
		st.verb, st.table, st.cols = "insert", p.name(), p.identList()
		p.need("values")
		p.needOp("(")
		st.vals = append(st.vals, p.operand())
		for p.op(",") {
			st.vals = append(st.vals, p.operand())
		}
		p.needOp(")")
		if len(st.vals) != len(st.cols) {
			p.fail()
		}
	case "delete":
		p.need("from")
		st.verb, st.table = "delete", p.name()
		if p.kw("where") {
			if t := p.peek(); t.k == 'o' && t.s == "(" {
				st.verb, st.pr = "prune", p.prune()
			} else {
				st.where = p.conds()
			}
		}
	case "select":
		p.i--
		st.kind, st.verb = "query", "select" // set first: a parse failure keeps the kind
		st.sel = p.sel()
		st.table = st.sel.from
	case "with":
		st.kind, st.verb = "query", "select"
		st.cteAs = p.ident()
		p.need("as")
		p.needOp("(")
		st.cte = p.sel()
		p.needOp(")")
		st.sel, st.table = p.sel(), st.cte.from
	case "copy":
		st.kind, st.verb = "copy", "copy"
		st.table, st.cols = p.name(), p.identList()
		p.need("from", "stdin", "binary")
	case "create":
		uniq := p.kw("unique")
		switch {
		case p.kw("index"):
			st.verb, st.ifne, st.idx.Name, st.idx.Unique = "createindex", p.kw("if", "not", "exists"), p.ident(), uniq
			p.need("on")
			st.table = p.name()
			if p.kw("using") {
				p.ident()
			}
			st.idx.Cols = p.identList()
		case !uniq && p.kw("table"):
			st.verb, st.ifne, st.table = "createtable", p.kw("if", "not", "exists"), p.name()
			p.needOp("(")
			st.defs = append(st.defs, p.coldef())
			for p.op(",") {
				st.defs = append(st.defs, p.coldef())
			}
			p.needOp(")")
		default:
			p.fail()
		}
	case "alter":
		p.need("table")
		st.verb, st.table = "addcolumn", p.name()
		if p.kw("drop") {
			p.kw("column")
			st.verb, st.ifne = "dropcolumn", p.kw("if", "exists")
			st.defs = []coldef{{name: p.name()}}
			break
		}
		p.need("add")
		p.kw("column")
		st.ifne, st.defs = p.kw("if", "not", "exists"), []coldef{p.coldef()}
	case "drop":
		p.need("table")
		st.verb, st.ifne, st.table = "droptable", p.kw("if", "exists"), p.name()
	default:
		p.fail()
	}
}

func parseStmt(src string, t []tok) (st *stmt) {
	st = &stmt{kind: "exec", sql: strings.TrimSpace(src[t[0].a:t[len(t)-1].b])}
	p := &parser{t: t}
	defer func() {
		if r := recover(); r != nil {
			if _, ok := r.(parseFail); !ok {
				panic(r)
			}
			st.err = errf("42601", "fakepg: unsupported statement: %s", st.sql)
		}
	}()
	if p.stmt(st); p.i != len(t) {
		p.fail()
	}
	return st
}

// parseSQL splits src at top-level semicolons and parses each statement.
// Unparseable statements are returned with err set (never dropped). A string
// containing "create schema" or "do $$" (shovel's schema.sql) is one no-op.
func parseSQL(src string) []*stmt {
	whole := &stmt{kind: "exec", sql: strings.TrimSpace(src)}
	if low := strings.ToLower(src); strings.Contains(low, "create schema") || strings.Contains(low, "do $$") {
		whole.verb = "noop"
		return []*stmt{whole}
	}
	if strings.Contains(low2(src), "from shovel.task_updates group by 1, 2") && strings.Contains(low2(src), "left join shovel.task_updates") {
		// shovel.TaskUpdates: the newest position of every (source, integration) with its statistics
		whole.kind, whole.verb, whole.table = "query", "taskupdates", "shovel.task_updates"
		return []*stmt{whole}
	}
	toks, ok := lex(src)
	if !ok {
		whole.err = errf("42601", "fakepg: unsupported statement: %s", whole.sql)
		return []*stmt{whole}
	}
	var out []*stmt
	for start, i := 0, 0; i <= len(toks); i++ {
		if i == len(toks) || toks[i].k == 'o' && toks[i].s == ";" {
			if i > start {
				out = append(out, parseStmt(src, toks[start:i]))
			}
			start = i + 1
		}
	}
	return out
}

func low2(s string) string { return strings.Join(strings.Fields(strings.ToLower(s)), " ") }

var taskUpdatesCols = []Column{{"src_name", "text"}, {"ig_name", "text"}, {"num", "numeric"}, {"stop", "numeric"}, {"hash", "bytea"},
	{"src_num", "numeric"}, {"src_hash", "bytea"}, {"nblocks", "numeric"}, {"nrows", "numeric"}, {"latency", "interval"}}

// taskUpdates evaluates shovel.TaskUpdates' query: per (src_name, ig_name) the row with the largest num
func (r *run) taskUpdates() (*result, *pgErr) {
	t, perr := r.db.lookup("shovel.task_updates")
	if perr != nil {
		return nil, perr
	}
	ix := map[string]int{}
	for i, c := range t.cols {
		ix[c.Name] = i
	}
	best := map[string][]Value{}
	var keys []string
	for _, rw := range t.rows {
		k := fmt.Sprintf("%v\x00%v", rw.v[ix["src_name"]], rw.v[ix["ig_name"]])
		cur, ok := best[k]
		if !ok {
			keys = append(keys, k)
		}
		if c, cmpOK := compare(rw.v[ix["num"]], func() Value {
			if ok {
				return cur[ix["num"]]
			}
			return nil
		}()); !ok || (cmpOK && c > 0) {
			best[k] = rw.v
		}
	}
	slices.Sort(keys)
	res := &result{cols: taskUpdatesCols}
	for _, k := range keys {
		v := best[k]
		get := func(name string, def Value) Value {
			if x := v[ix[name]]; x != nil {
				return x
			}
			return def
		}
		res.rows = append(res.rows, []Value{get("src_name", nil), get("ig_name", nil), get("num", nil), get("stop", Num("0")), get("hash", nil),
			get("src_num", Num("0")), get("src_hash", []byte{0}), get("nblocks", Num("0")), get("nrows", Num("0")), get("latency", Interval(0))})
	}
	res.n, res.tag = len(res.rows), fmt.Sprintf("SELECT %d", len(res.rows))
	return res, nil
}

// ---------------------------------------------------------------- catalog

func (db *DB) lookup(name string) (*table, *pgErr) {
	text := func(names ...string) (cols []Column) {
		for _, n := range names {
			cols = append(cols, Column{n, "text"})
		}
		return
	}
	split := func(n string) (string, string) {
		if i := strings.IndexByte(n, '.'); i >= 0 {
			return n[:i], n[i+1:]
		}
		return "public", n
	}
	switch name {
	case "information_schema.columns":
		t := &table{name: name, cols: text("table_schema", "table_name", "column_name", "data_type")}
		for _, n := range db.names() {
			schema, tn := split(n)
			for _, c := range db.tables[n].cols {
				t.rows = append(t.rows, row{0, []Value{schema, tn, c.Name, c.Type}})
			}
		}
		return t, nil
	case "pg_indexes", "pg_catalog.pg_indexes":
		t := &table{name: name, cols: text("schemaname", "tablename", "indexname", "indexdef")}
		for _, n := range db.names() {
			schema, tn := split(n)
			for _, ix := range db.tables[n].idx {
				def := fmt.Sprintf("CREATE %sINDEX %s ON %s.%s USING btree (%s)", map[bool]string{true: "UNIQUE "}[ix.Unique], ix.Name, schema, tn, strings.Join(ix.Cols, ", "))
				t.rows = append(t.rows, row{0, []Value{schema, tn, ix.Name, def}})
			}
		}
		return t, nil
	}
	if t := db.tables[name]; t != nil {
		return t, nil
	}
	return nil, errf("42P01", "relation %q does not exist", name)
}

type fnSig struct {
	ret  string
	args []string
}

var funcs = map[string]fnSig{
	"pg_notify":             {"void", []string{"text", "text"}},
	"pg_advisory_xact_lock": {"void", []string{"bigint"}},
	"current_database":      {"text", nil},
}

// ---------------------------------------------------------------- executor

type result struct {
	tag  string
	cols []Column
	rows [][]Value
	n    int
}

// run executes one statement against db, a private view (committed state +
// the transaction's effects). Effects are applied to db as they are emitted.
type run struct {
	db    *DB
	args  []Value
	c     *conn
	dry   bool // planning only: parameters are unknown, nothing is evaluated
	effs  []effect
	notes []*Notification
}

// safely converts a panic in the engine (a fakepg bug) into SQLSTATE XXBUG
// instead of taking the whole test process down.
func (r *run) safely(f func() (*result, *pgErr)) (res *result, perr *pgErr) {
	defer func() {
		if p := recover(); p != nil {
			res, perr = nil, errf("XXBUG", "fakepg: internal error: %v", p)
		}
	}()
	return f()
}

func (r *run) emit(e effect) *pgErr {
	if perr := r.db.apply(e, true); perr != nil {
		return perr
	}
	r.effs = append(r.effs, e)
	return nil
}

func (r *run) value(o operand) (Value, *pgErr) {
	switch {
	case o.kind == 'l' || o.kind == 'p' && r.dry:
		return o.v, nil
	case o.kind == 'p' && o.n <= len(r.args):
		return r.args[o.n-1], nil
	case o.kind == 'p':
		return nil, errf("08P01", "there is no parameter $%d", o.n)
	}
	return nil, errf("0A000", "fakepg: unsupported expression %q", o.name)
}

func test(op string, a, b Value) bool {
	switch op {
	case "isnull":
		return a == nil
	case "notnull":
		return a != nil
	case "any":
		arr, _ := b.([]Value)
		return slices.ContainsFunc(arr, func(e Value) bool { c, ok := compare(a, e); return ok && c == 0 })
	}
	c, ok := compare(a, b)
	return ok && map[string]bool{"=": c == 0, "<>": c != 0, "<": c < 0, "<=": c <= 0, ">": c > 0, ">=": c >= 0}[op]
}

// compile turns a conjunction into a row predicate. Literals are coerced to
// the type of the column they are compared with.
func (r *run) compile(t *table, cs []cond) (func([]Value) bool, *pgErr) {
	type side struct {
		idx int
		v   Value
	}
	type cc struct {
		l, r side
		op   string
	}
	var out []cc
	for _, c := range cs {
		resolve := func(o, other operand) (side, *pgErr) {
			if o.kind == 'c' {
				i, perr := t.col(o.name)
				return side{idx: i}, perr
			}
			if o.kind == 0 {
				return side{idx: -1}, nil
			}
			v, perr := r.value(o)
			if j, e := t.col(other.name); perr == nil && o.kind == 'l' && other.kind == 'c' && e == nil {
				v, perr = coerce(v, t.cols[j].Type)
			}
			return side{-1, v}, perr
		}
		x := cc{op: c.op}
		var perr *pgErr
		if x.l, perr = resolve(c.l, c.r); perr != nil {
			return nil, perr
		}
		if x.r, perr = resolve(c.r, c.l); perr != nil {
			return nil, perr
		}
		out = append(out, x)
	}
	get := func(s side, v []Value) Value {
		if s.idx >= 0 {
			return v[s.idx]
		}
		return s.v
	}
	return func(v []Value) bool {
		for _, x := range out {
			if !test(x.op, get(x.l, v), get(x.r, v)) {
				return false
			}
		}
		return true
	}, nil
}

// orderCmp is the ORDER BY ordering: NULL sorts as greater than everything.
func orderCmp(a, b Value) int {
	if a == nil || b == nil {
		return bint(a == nil) - bint(b == nil)
	}
	c, _ := compare(a, b)
	return c
}

func sortRows(rows []row, keys []okey, pos []int) {
	sort.SliceStable(rows, func(i, j int) bool {
		for k, p := range pos {
			if c := orderCmp(rows[i].v[p], rows[j].v[p]); c != 0 {
				return (c < 0) != keys[k].desc
			}
		}
		return false
	})
}

func (r *run) call(f operand) (Value, *pgErr) {
	var a []Value
	for _, o := range f.args {
		v, perr := r.value(o)
		if perr != nil {
			return nil, perr
		}
		a = append(a, v)
	}
	switch f.name {
	case "pg_notify":
		ch, _ := a[0].(string)
		pl, _ := a[1].(string)
		r.notes = append(r.notes, &Notification{Channel: ch, Payload: pl})
	case "current_database":
		return "db", nil
	}
	return "", nil
}

// sel evaluates a select and returns its result as a table (so that a CTE
// can be registered under a name). With r.dry only the shape is computed.
func (r *run) sel(s *sel) (*table, *pgErr) {
	src := &table{rows: []row{{}}}
	if s.from != "" {
		var perr *pgErr
		if src, perr = r.db.lookup(s.from); perr != nil {
			return nil, perr
		}
	}
	out := &table{name: s.from}
	type proj struct {
		idx int // source column, or -1 literal, -2 function call
		e   operand
	}
	var pj []proj
	for _, it := range s.items {
		name := func(def string) string {
			if it.as != "" {
				return it.as
			}
			return def
		}
		switch {
		case it.star:
			for i, c := range src.cols {
				out.cols, pj = append(out.cols, c), append(pj, proj{idx: i})
			}
		case it.e.kind == 'c':
			i, perr := src.col(it.e.name)
			if perr != nil {
				return nil, perr
			}
			out.cols, pj = append(out.cols, Column{name(it.e.name), src.cols[i].Type}), append(pj, proj{idx: i})
		case it.e.kind == 'l':
			c := Column{name("?column?"), "text"}
			switch it.e.v.(type) {
			case bool:
				c = Column{name("bool"), "boolean"}
			case Num:
				c = Column{name("int4"), "integer"}
			}
			out.cols, pj = append(out.cols, c), append(pj, proj{-1, it.e})
		case it.e.kind == 'f':
			sig, ok := funcs[it.e.name]
			if !ok || len(sig.args) != len(it.e.args) {
				return nil, errf("42883", "function %s does not exist", it.e.name)
			}
			out.cols, pj = append(out.cols, Column{name(it.e.name), sig.ret}), append(pj, proj{-2, it.e})
		default:
			return nil, errf("0A000", "fakepg: unsupported select item")
		}
	}
	// sort keys: ORDER BY, then any DISTINCT ON columns not mentioned (PostgreSQL's rule, else 42P10)
	keys, skipped := slices.Clone(s.order), false
	for _, k := range s.order {
		if in := slices.Contains(s.distinct, k.col); len(s.distinct) > 0 && in && skipped {
			return nil, errf("42P10", "SELECT DISTINCT ON expressions must match initial ORDER BY expressions")
		} else if !in {
			skipped = true
		}
	}
	for _, d := range s.distinct {
		if !slices.ContainsFunc(s.order, func(k okey) bool { return k.col == d }) {
			if skipped {
				return nil, errf("42P10", "SELECT DISTINCT ON expressions must match initial ORDER BY expressions")
			}
			keys = append(keys, okey{col: d})
		}
	}
	kpos := make([]int, len(keys))
	for i, k := range keys {
		var perr *pgErr
		if kpos[i], perr = src.col(k.col); perr != nil {
			return nil, perr
		}
	}
	dpos, perr := src.positions(s.distinct)
	if perr != nil {
		return nil, perr
	}
	match, perr := r.compile(src, s.where)
	if perr != nil {
		return nil, perr
	}
	limit := -1
	if s.limit != nil {
		v, perr := r.value(*s.limit)
		if perr == nil {
			v, perr = coerce(v, "bigint")
		}
		if perr != nil {
			return nil, perr
		}
		if n, ok := v.(Num); ok {
			if limit, _ = strconv.Atoi(string(n)); limit < 0 {
				return nil, errf("2201W", "LIMIT must not be negative")
			}
		}
	}
	if r.dry {
		return out, nil
	}
	var rows []row
	for _, rw := range src.rows {
		if match(rw.v) {
			rows = append(rows, rw)
		}
	}
	sortRows(rows, keys, kpos)
	if len(dpos) > 0 { // keep the first row of each run of equal DISTINCT ON keys
		kept := rows[:0:0]
		for _, rw := range rows {
			if n := len(kept); n == 0 || slices.ContainsFunc(dpos, func(p int) bool { return orderCmp(kept[n-1].v[p], rw.v[p]) != 0 }) {
				kept = append(kept, rw)
			}
		}
		rows = kept
	}
	if limit >= 0 && len(rows) > limit {
		rows = rows[:limit]
	}
	for _, rw := range rows {
		v := make([]Value, len(pj))
		for i, p := range pj {
			switch p.idx {
			case -1:
				v[i] = p.e.v
			case -2:
				if v[i], perr = r.call(p.e); perr != nil {
					return nil, perr
				}
			default:
				v[i] = rw.v[p.idx]
			}
		}
		out.rows = append(out.rows, row{rw.id, v})
	}
	return out, nil
}

// query runs [with cteAs as (cte)] sel.
func (r *run) query(st *stmt) (*table, *pgErr) {
	if st.cte != nil {
		t, perr := r.sel(st.cte)
		if perr != nil {
			return nil, perr
		}
		t.name = st.cteAs
		old, had := r.db.tables[st.cteAs]
		r.db.tables[st.cteAs] = t
		defer func() {
			if delete(r.db.tables, st.cteAs); had {
				r.db.tables[st.cteAs] = old
			}
		}()
	}
	return r.sel(st.sel)
}

func (r *run) stmt(st *stmt, data [][]Value) (*result, *pgErr) {
	switch st.verb {
	case "set":
		return &result{tag: "SET"}, nil
	case "noop":
		return &result{tag: "DO"}, nil
	case "taskupdates":
		return r.taskUpdates()
	case "select":
		t, perr := r.query(st)
		if perr != nil {
			return nil, perr
		}
		res := &result{tag: fmt.Sprintf("SELECT %d", len(t.rows)), cols: t.cols, n: len(t.rows)}
		for _, rw := range t.rows {
			res.rows = append(res.rows, rw.v)
		}
		return res, nil
	case "createtable":
		if r.db.tables[st.table] != nil {
			if st.ifne {
				return &result{tag: "CREATE TABLE"}, nil
			}
			return nil, errf("42P07", "relation %q already exists", st.table)
		}
		t := &table{name: st.table}
		for _, d := range st.defs {
			if perr := addCol(t, d); perr != nil {
				return nil, perr
			}
		}
		return &result{tag: "CREATE TABLE"}, r.emit(effect{kind: 't', table: st.table, tbl: t})
	}
	t, perr := r.db.lookup(st.table)
	if perr != nil {
		if st.verb == "droptable" && st.ifne {
			return &result{tag: "DROP TABLE"}, nil
		}
		return nil, perr
	}
	switch st.verb {
	case "insert", "copy":
		pos, perr := t.positions(st.cols)
		if perr != nil {
			return nil, perr
		}
		tag := "COPY %d"
		if st.verb == "insert" {
			tag, data = "INSERT 0 %d", [][]Value{make([]Value, len(st.vals))}
			for i, o := range st.vals {
				if data[0][i], perr = r.value(o); perr != nil {
					return nil, perr
				}
			}
		}
		rows := make([]row, len(data))
		for i, d := range data {
			if len(d) != len(pos) {
				return nil, errf("22P04", "row field count is %d, expected %d", len(d), len(pos))
			}
			v := slices.Clone(t.defs)
			for j, p := range pos {
				if v[p], perr = coerce(d[j], t.cols[p].Type); perr != nil {
					return nil, perr
				}
			}
			r.c.s.nextRow++
			rows[i] = row{r.c.s.nextRow, v}
		}
		return &result{tag: fmt.Sprintf(tag, len(rows)), n: len(rows)}, r.emit(effect{kind: 'i', table: st.table, rows: rows})
	case "delete":
		match, perr := r.compile(t, st.where)
		if perr != nil {
			return nil, perr
		}
		return r.del(t, func(rw row) bool { return match(rw.v) })
	case "prune":
		return r.prune(t, st.pr)
	case "createindex":
		for _, n := range r.db.names() {
			if slices.ContainsFunc(r.db.tables[n].idx, func(ix Index) bool { return ix.Name == st.idx.Name }) {
				if st.ifne {
					return &result{tag: "CREATE INDEX"}, nil
				}
				return nil, errf("42P07", "relation %q already exists", st.idx.Name)
			}
		}
		return &result{tag: "CREATE INDEX"}, r.emit(effect{kind: 'x', table: st.table, idx: st.idx})
	case "addcolumn":
		if _, perr := t.col(st.defs[0].name); perr == nil {
			if st.ifne {
				return &result{tag: "ALTER TABLE"}, nil
			}
			return nil, errf("42701", "column %q of relation %q already exists", st.defs[0].name, st.table)
		}
		tmp := &table{}
		if perr := addCol(tmp, st.defs[0]); perr != nil {
			return nil, perr
		}
		return &result{tag: "ALTER TABLE"}, r.emit(effect{kind: 'a', table: st.table, col: tmp.cols[0], def: tmp.defs[0]})
	case "dropcolumn":
		if _, perr := t.col(st.defs[0].name); perr != nil {
			if st.ifne {
				return &result{tag: "ALTER TABLE"}, nil
			}
			return nil, perr
		}
		return &result{tag: "ALTER TABLE"}, r.emit(effect{kind: 'c', table: st.table, col: Column{Name: st.defs[0].name}})
	case "droptable":
		return &result{tag: "DROP TABLE"}, r.emit(effect{kind: 'r', table: st.table})
	}
	return nil, errf("42601", "fakepg: unsupported statement: %s", st.sql)
}

func addCol(t *table, d coldef) *pgErr {
	typ, ok := typeAlias[d.typ]
	if !ok {
		return errf("42704", "type %q does not exist", d.typ)
	}
	if _, perr := t.col(d.name); perr == nil {
		return errf("42701", "column %q specified more than once", d.name)
	}
	def, perr := coerce(d.def, typ)
	t.cols, t.defs = append(t.cols, Column{d.name, typ}), append(t.defs, def)
	return perr
}

func (r *run) del(t *table, drop func(row) bool) (*result, *pgErr) {
	ids := map[int64]bool{}
	for _, rw := range t.rows {
		if drop(rw) {
			ids[rw.id] = true
		}
	}
	return &result{tag: fmt.Sprintf("DELETE %d", len(ids)), n: len(ids)}, r.emit(effect{kind: 'd', table: t.name, ids: ids})
}

func (r *run) prune(t *table, pr *prune) (*result, *pgErr) {
	src, perr := r.db.lookup(pr.src)
	if perr != nil {
		return nil, perr
	}
	for _, c := range pr.inner {
		if !slices.Contains(pr.avail, c) {
			return nil, errf("42703", "column %q does not exist", c)
		}
	}
	var opos, ipos, ppos, kpos []int
	for _, x := range []struct {
		t    *table
		cols []string
		dst  *[]int
	}{{t, pr.cols, &opos}, {src, pr.inner, &ipos}, {src, pr.part, &ppos}, {src, []string{pr.ord.col}, &kpos}, {src, pr.avail, new([]int)}} {
		if *x.dst, perr = x.t.positions(x.cols); perr != nil {
			return nil, perr
		}
	}
	if len(opos) != len(ipos) {
		return nil, errf("42601", "subquery has too few or too many columns")
	}
	n, perr := r.value(pr.n)
	if perr == nil {
		n, perr = coerce(n, "bigint")
	}
	if perr != nil {
		return nil, perr
	}
	// row_number() over (partition by part order by ord), filtered by "rn op n"
	rows := slices.Clone(src.rows)
	sortRows(rows, []okey{pr.ord}, kpos)
	var keep [][]Value
	rn := map[string]int{}
	for _, rw := range rows {
		k := fmt.Sprintf("%#v", pick(rw.v, ppos))
		if rn[k]++; test(pr.op, Num(strconv.Itoa(rn[k])), n) {
			keep = append(keep, pick(rw.v, ipos))
		}
	}
	// (cols) NOT IN keep, with SQL three-valued logic: delete only if every comparison is definitely false
	return r.del(t, func(rw row) bool {
		for _, k := range keep {
			differs := false
			for i, p := range opos {
				if c, ok := compare(rw.v[p], k[i]); rw.v[p] != nil && k[i] != nil && (!ok || c != 0) {
					differs = true
				}
			}
			if !differs {
				return false
			}
		}
		return true
	})
}

// plan type-checks st against the view and infers parameter and result types
// (what PostgreSQL reports for Describe).
func (r *run) plan(st *stmt) (oids []uint32, fields []Column, perr *pgErr) {
	r.dry = true
	set := func(o operand, typ string, arr bool) {
		if o.kind != 'p' {
			return
		}
		for len(oids) < o.n {
			oids = append(oids, 0)
		}
		if oid := map[bool]uint32{true: arrayOID[typ], false: typeOID[typ]}[arr]; oids[o.n-1] == 0 {
			oids[o.n-1] = oid
		}
	}
	conds := func(t *table, cs []cond) {
		for _, c := range cs {
			for _, p := range [][2]operand{{c.l, c.r}, {c.r, c.l}} {
				if i, e := t.col(p[0].name); p[0].kind == 'c' && e == nil {
					set(p[1], t.cols[i].Type, c.op == "any")
				}
			}
		}
	}
	sel := func(s *sel) (*table, *pgErr) {
		if src, e := r.db.lookup(s.from); e == nil {
			conds(src, s.where)
		}
		if s.limit != nil {
			set(*s.limit, "bigint", false)
		}
		for _, it := range s.items {
			for i, a := range it.e.args {
				if sig := funcs[it.e.name]; i < len(sig.args) {
					set(a, sig.args[i], false)
				}
			}
		}
		return r.sel(s)
	}
	var t *table
	if slices.Contains([]string{"insert", "copy", "delete", "prune"}, st.verb) {
		if t, perr = r.db.lookup(st.table); perr != nil {
			return nil, nil, perr
		}
	}
	switch st.verb {
	case "insert", "copy":
		pos, perr := t.positions(st.cols)
		if perr != nil {
			return nil, nil, perr
		}
		for i, o := range st.vals {
			set(o, t.cols[pos[i]].Type, false)
		}
	case "delete":
		conds(t, st.where)
		_, perr = r.compile(t, st.where)
	case "prune":
		set(st.pr.n, "bigint", false)
	case "taskupdates":
		fields = taskUpdatesCols
	case "select":
		if st.cte != nil {
			c, perr := sel(st.cte)
			if perr != nil {
				return nil, nil, perr
			}
			c.name = st.cteAs
			r.db.tables[st.cteAs] = c // r.db is a private clone
		}
		var out *table
		if out, perr = sel(st.sel); perr == nil {
			fields = out.cols
		}
	}
	if perr == nil && slices.Contains(oids, 0) {
		perr = errf("42P18", "could not determine data type of parameter $%d", slices.Index(oids, 0)+1)
	}
	return oids, fields, perr
}
