// Package fakepg is an in-process fake PostgreSQL server: a wire-protocol
// front end (pgproto3.Backend, see wire.go) plus a mini SQL engine (sql.go)
// that interprets the handful of statement shapes issued by indexsupply/shovel.
// It exists so that the real shovel code can run against an unmodified
// *pgxpool.Pool on machines without PostgreSQL, while a test harness inspects
// committed state, reads an event log and injects faults. See README.md.
package fakepg

import (
	"bytes"
	"encoding/hex"
	"fmt"
	"math/big"
	"net"
	"slices"
	"sort"
	"strings"
	"sync"
)

// Value is the normalized value model. A Value is one of
//
//	nil       SQL NULL
//	bool      boolean
//	string    text / varchar (and timestamptz, kept as its text form)
//	[]byte    bytea
//	Num       smallint / integer / bigint / numeric, canonical decimal string
//	Interval  interval, in microseconds
//	JSON      json / jsonb text
//	[]Value   only as a bind parameter for "= ANY($n)"; never stored
type Value = any

// Num is an arbitrary precision decimal number in canonical form ("-12", "0",
// "7.5"): no leading zeros, no "+", no trailing fractional zeros, no "-0".
type Num string

// Interval is a duration in microseconds (months = 30 days, days = 24 h).
type Interval int64

// JSON is the text of a json/jsonb value (stored verbatim, not re-formatted).
type JSON string

// Column describes a table column. Type is the canonical information_schema
// name: text, smallint, integer, bigint, numeric, bytea, boolean, jsonb,
// interval, "timestamp with time zone".
type Column struct{ Name, Type string }

type Index struct {
	Name   string
	Unique bool
	Cols   []string
}

type Notification struct {
	Channel, Payload string
	Committed        bool
}

// Event is one entry of the operation log.
type Event struct {
	Seq   int
	Conn  int
	Kind  string // begin | commit | rollback | exec | query | copy | connlost
	SQL   string
	Args  []Value
	Table string
	NRows int
	InTx  bool
	Err   string // "" | SQLSTATE | "dropconn" | "dropall" | "connlost"
}

type Fault int

const (
	NoFault Fault = iota
	ErrorReply
	DropConn
	DropAll
)

type pgErr struct{ code, msg string }

func (e *pgErr) Error() string { return e.code + ": " + e.msg }

func errf(code, format string, a ...any) *pgErr { return &pgErr{code, fmt.Sprintf(format, a...)} }

// ---------------------------------------------------------------- state

type row struct {
	id int64 // unique for the life of the server; identifies the row in delete effects
	v  []Value
}

type table struct {
	name string
	cols []Column
	defs []Value // column defaults
	rows []row
	idx  []Index
}

// DB is a database state (tables, rows, indexes). Row value slices are
// immutable once stored, so clone() only copies the containers.
type DB struct{ tables map[string]*table }

func (db *DB) clone() *DB {
	out := &DB{tables: make(map[string]*table, len(db.tables))}
	for n, t := range db.tables {
		out.tables[n] = t.clone()
	}
	return out
}

func (t *table) clone() *table {
	c := *t
	c.cols, c.defs, c.rows, c.idx = slices.Clone(t.cols), slices.Clone(t.defs), slices.Clone(t.rows), slices.Clone(t.idx)
	return &c
}

func (t *table) col(name string) (int, *pgErr) {
	for i, c := range t.cols {
		if c.Name == name {
			return i, nil
		}
	}
	return -1, errf("42703", "column %q of relation %q does not exist", name, t.name)
}

func (t *table) positions(cols []string) ([]int, *pgErr) {
	pos := make([]int, len(cols))
	for i, c := range cols {
		p, perr := t.col(c)
		if perr != nil {
			return nil, perr
		}
		pos[i] = p
	}
	return pos, nil
}

func pick(v []Value, pos []int) []Value {
	out := make([]Value, len(pos))
	for i, p := range pos {
		out[i] = v[p]
	}
	return out
}

// dup reports a violation of unique index ix among t.rows plus extra. Rows
// with a NULL in an indexed column never conflict. Values are canonical, so
// their Go syntax is a faithful key.
func (t *table) dup(ix Index, extra []row) *pgErr {
	pos, perr := t.positions(ix.Cols)
	if perr != nil || !ix.Unique {
		return perr
	}
	seen := map[string]bool{}
	for _, rows := range [][]row{t.rows, extra} {
		for _, r := range rows {
			if k := pick(r.v, pos); !slices.Contains(k, nil) {
				if ks := fmt.Sprintf("%#v", k); seen[ks] {
					return errf("23505", "duplicate key value violates unique constraint %q", ix.Name)
				} else {
					seen[ks] = true
				}
			}
		}
	}
	return nil
}

func (t *table) insert(rows []row, check bool) *pgErr {
	for _, ix := range t.idx {
		if perr := t.dup(ix, rows); perr != nil && check {
			return perr
		}
	}
	t.rows = append(t.rows, rows...)
	return nil
}

// effect is one pending change of a transaction. Effects are replayed, in
// order, on a clone of the committed state: without checks to build the
// transaction's view, with checks at COMMIT.
type effect struct {
	kind  byte // 'i' insert rows, 'd' delete row ids, 't' create table, 'x' create index, 'a' add column, 'c' drop column, 'r' drop table
	table string
	rows  []row
	ids   map[int64]bool
	tbl   *table
	idx   Index
	col   Column
	def   Value
}

func (db *DB) apply(e effect, check bool) *pgErr {
	t := db.tables[e.table]
	switch {
	case e.kind == 't':
		if t == nil {
			db.tables[e.table] = e.tbl.clone()
		}
		return nil
	case t == nil && check:
		return errf("42P01", "relation %q does not exist", e.table)
	case t == nil:
		return nil
	}
	switch e.kind {
	case 'i':
		rows := slices.Clone(e.rows)
		for i, r := range rows {
			if len(r.v) < len(t.cols) { // column added concurrently
				rows[i].v = append(slices.Clone(r.v), t.defs[len(r.v):]...)
			}
		}
		return t.insert(rows, check)
	case 'd':
		t.rows = slices.DeleteFunc(t.rows, func(r row) bool { return e.ids[r.id] })
	case 'x':
		for _, o := range db.tables {
			for _, ix := range o.idx {
				if ix.Name == e.idx.Name {
					return nil
				}
			}
		}
		if perr := t.dup(e.idx, nil); perr != nil && (check || perr.code != "23505") {
			return perr
		}
		t.idx = append(t.idx, e.idx)
	case 'a':
		if _, perr := t.col(e.col.Name); perr == nil {
			return nil
		}
		t.cols, t.defs = append(t.cols, e.col), append(t.defs, e.def)
		for i, r := range t.rows {
			t.rows[i].v = append(slices.Clone(r.v), e.def)
		}
	case 'c': // drop column: its values go, and (as in PostgreSQL) every index that mentions it
		i, perr := t.col(e.col.Name)
		if perr != nil {
			return nil
		}
		t.cols = slices.Delete(slices.Clone(t.cols), i, i+1)
		t.defs = slices.Delete(slices.Clone(t.defs), i, i+1)
		for k, r := range t.rows {
			if i < len(r.v) {
				t.rows[k].v = slices.Delete(slices.Clone(r.v), i, i+1)
			}
		}
		t.idx = slices.DeleteFunc(slices.Clone(t.idx), func(ix Index) bool { return slices.Contains(ix.Cols, e.col.Name) })
	case 'r':
		delete(db.tables, e.table)
	}
	return nil
}

// ---------------------------------------------------------------- values

func rat(n Num) *big.Rat {
	r, ok := new(big.Rat).SetString(string(n))
	if !ok {
		return new(big.Rat)
	}
	return r
}

func numCmp(a, b Num) int {
	if strings.Contains(string(a+b), ".") || a == "" || b == "" {
		return rat(a).Cmp(rat(b))
	}
	if na, nb := a[0] == '-', b[0] == '-'; na != nb {
		return bint(nb) - bint(na)
	} else if c := len(a) - len(b); c != 0 { // canonical integers: longer means larger magnitude
		return (bint(c > 0)*2 - 1) * (1 - 2*bint(na))
	}
	return strings.Compare(string(a), string(b)) * (1 - 2*bint(a[0] == '-'))
}

// normNum brings a decimal string into canonical Num form.
func normNum(s string) (Num, bool) {
	s = strings.TrimSpace(s)
	if i, ok := new(big.Int).SetString(s, 10); ok {
		return Num(i.String()), true
	}
	if strings.ContainsAny(s, "/ ") || s == "" {
		return "", false
	}
	r, ok := new(big.Rat).SetString(s)
	if !ok {
		return "", false
	}
	if r.IsInt() {
		return Num(r.Num().String()), true
	}
	return Num(strings.TrimRight(r.FloatString(40), "0")), true
}

// compare orders two non-NULL values of the same kind; ok is false if either
// is NULL or the kinds differ (the comparison is then "not true").
func compare(a, b Value) (c int, ok bool) {
	switch x := a.(type) {
	case bool:
		if y, ok := b.(bool); ok {
			return bint(x) - bint(y), true
		}
	case string:
		if y, ok := b.(string); ok {
			return strings.Compare(x, y), true
		}
	case JSON:
		if y, ok := b.(JSON); ok {
			return strings.Compare(string(x), string(y)), true
		}
	case []byte:
		if y, ok := b.([]byte); ok {
			return bytes.Compare(x, y), true
		}
	case Num:
		if y, ok := b.(Num); ok {
			return numCmp(x, y), true
		}
	case Interval:
		if y, ok := b.(Interval); ok {
			return bint(x > y) - bint(x < y), true
		}
	}
	return 0, false
}

func bint(b bool) int {
	if b {
		return 1
	}
	return 0
}

var typeAlias = map[string]string{
	"text": "text", "varchar": "text", "int": "integer", "integer": "integer", "int4": "integer",
	"int2": "smallint", "smallint": "smallint", "int8": "bigint", "bigint": "bigint", "numeric": "numeric",
	"bytea": "bytea", "bool": "boolean", "boolean": "boolean", "jsonb": "jsonb", "json": "jsonb",
	"interval": "interval", "timestamptz": "timestamp with time zone",
}

var typeOID = map[string]uint32{
	"text": 25, "integer": 23, "smallint": 21, "bigint": 20, "numeric": 1700, "bytea": 17, "boolean": 16,
	"jsonb": 3802, "interval": 1186, "timestamp with time zone": 1184, "void": 2278,
}

var arrayOID = map[string]uint32{"text": 1009, "integer": 1007, "smallint": 1005, "bigint": 1016, "numeric": 1231, "bytea": 1001, "boolean": 1000}

// coerce converts a literal / Go value to the normalized Value for column type typ.
func coerce(v Value, typ string) (Value, *pgErr) {
	bad := errf("22P02", "invalid input for type %s: %v (%T)", typ, v, v)
	if v == nil {
		return nil, nil
	}
	switch typ {
	case "text", "timestamp with time zone":
		if s, ok := v.(string); ok {
			return s, nil
		}
	case "smallint", "integer", "bigint", "numeric":
		switch x := v.(type) {
		case Num:
			return x, nil
		case string:
			if n, ok := normNum(x); ok {
				return n, nil
			}
		case int, int64, uint64, int32, uint32:
			return Num(fmt.Sprint(x)), nil
		}
	case "bytea":
		switch x := v.(type) {
		case []byte:
			return x, nil
		case string:
			if b, err := hex.DecodeString(strings.TrimPrefix(x, `\x`)); err == nil && strings.HasPrefix(x, `\x`) {
				return b, nil
			}
		}
	case "boolean":
		switch x := v.(type) {
		case bool:
			return x, nil
		case string:
			switch strings.ToLower(x) {
			case "true", "t":
				return true, nil
			case "false", "f":
				return false, nil
			}
		}
	case "jsonb":
		switch x := v.(type) {
		case JSON:
			return x, nil
		case string:
			return JSON(x), nil
		case []byte:
			return JSON(x), nil
		}
	case "interval":
		switch x := v.(type) {
		case Interval:
			return x, nil
		case interface{ Microseconds() int64 }: // time.Duration
			return Interval(x.Microseconds()), nil
		}
	}
	return nil, bad
}

func cloneValue(v Value) Value {
	if b, ok := v.([]byte); ok {
		return append([]byte{}, b...)
	}
	return v
}

// ---------------------------------------------------------------- server

type Server struct {
	opMu sync.Mutex // serialises logged operations (hook + execution): Seq order == execution order
	hold func(e Event)
	mu   sync.Mutex // guards all fields below and all conn tx state
	db   *DB
	ln   net.Listener
	wg   sync.WaitGroup

	conns    map[int]*conn
	nextConn int
	seq      int
	nextRow  int64
	log      []Event
	notes    []*Notification
	hook     func(Event) Fault
	onCommit func(db *DB) // called (under the server lock) whenever the committed state changes
	closed   bool
}

// New creates a server whose database already contains the final shape of
// shovel/schema.sql (shovel.task_updates, shovel.integrations, shovel.sources
// and their unique indexes). It is not yet listening.
func New() *Server {
	s := &Server{db: &DB{tables: map[string]*table{}}, conns: map[int]*conn{}}
	mk := func(name string, idx []Index, cols ...string) {
		t := &table{name: name, idx: idx}
		for i := 0; i < len(cols); i += 2 {
			t.cols, t.defs = append(t.cols, Column{cols[i], typeAlias[cols[i+1]]}), append(t.defs, nil)
		}
		s.db.tables[name] = t
	}
	mk("shovel.task_updates", []Index{{"task_src_name_num_idx", true, []string{"ig_name", "src_name", "num"}}},
		"num", "numeric", "hash", "bytea", "insert_at", "timestamptz", "src_hash", "bytea", "src_num", "numeric",
		"nblocks", "numeric", "nrows", "numeric", "latency", "interval", "src_name", "text", "stop", "numeric",
		"chain_id", "int", "ig_name", "text")
	mk("shovel.integrations", nil, "name", "text", "conf", "jsonb")
	mk("shovel.sources", []Index{{"sources_name_chain_id_idx", true, []string{"name", "chain_id"}}, {"sources_name_idx", true, []string{"name"}}},
		"name", "text", "chain_id", "integer", "url", "text")
	return s
}

// Start listens on 127.0.0.1:0 and returns a connection URL for pgx.
func (s *Server) Start() (string, error) {
	ln, err := net.Listen("tcp", "127.0.0.1:0")
	if err != nil {
		return "", err
	}
	s.ln = ln
	s.wg.Add(1)
	go func() {
		defer s.wg.Done()
		for {
			nc, err := ln.Accept()
			if err != nil {
				return
			}
			s.mu.Lock()
			if s.closed {
				s.mu.Unlock()
				nc.Close()
				return
			}
			s.nextConn++
			c := newConn(s, s.nextConn, nc)
			s.conns[c.id] = c
			s.wg.Add(1)
			s.mu.Unlock()
			go func() { defer s.wg.Done(); c.serve() }()
		}
	}()
	return fmt.Sprintf("postgres://u@%s/db?sslmode=disable", ln.Addr()), nil
}

// Close stops listening, closes all connections and waits for their goroutines.
func (s *Server) Close() {
	s.mu.Lock()
	s.closed = true
	for _, c := range s.conns {
		c.nc.Close()
	}
	s.mu.Unlock()
	if s.ln != nil {
		s.ln.Close()
	}
	s.wg.Wait()
}

// kill marks c dead, rolls back its transaction, closes its socket and logs
// a "connlost" event. Caller holds s.mu. Idempotent.
func (s *Server) kill(c *conn, logIt bool) {
	if c.dead {
		return
	}
	c.dead = true
	if logIt && !s.closed {
		s.seq++
		s.log = append(s.log, Event{Seq: s.seq, Conn: c.id, Kind: "connlost", InTx: c.tx != 0})
	}
	c.tx, c.effs, c.notes = 0, nil, nil
	c.nc.Close()
	delete(s.conns, c.id)
}

func (s *Server) killAll() {
	ids := make([]int, 0, len(s.conns))
	for id := range s.conns {
		ids = append(ids, id)
	}
	sort.Ints(ids)
	for _, id := range ids {
		s.kill(s.conns[id], true)
	}
}

// DropAllConns abruptly closes every client connection; open transactions are
// rolled back. Safe to call from anywhere (including a fault hook).
func (s *Server) DropAllConns() {
	s.mu.Lock()
	defer s.mu.Unlock()
	s.killAll()
}

// SetFaultHook installs h (nil disables). h runs before each logged operation
// with Seq, Conn, Kind, SQL, Args, Table and InTx filled in. It is called
// without s.mu held, so it may call the inspection methods.
func (s *Server) SetFaultHook(h func(e Event) Fault) {
	s.mu.Lock()
	defer s.mu.Unlock()
	s.hook = h
}

// SetHoldHook installs h (nil disables). h runs before an operation is ordered and executed, with Conn,
// Kind, SQL, Args, Table and InTx filled in (no Seq yet); it may block: only the calling connection
// waits, every other connection carries on.
func (s *Server) SetHoldHook(h func(e Event)) {
	s.mu.Lock()
	defer s.mu.Unlock()
	s.hold = h
}

// Log returns the events so far, ordered by Seq.
func (s *Server) Log() []Event {
	s.mu.Lock()
	defer s.mu.Unlock()
	out := slices.Clone(s.log)
	sort.SliceStable(out, func(i, j int) bool { return out[i].Seq < out[j].Seq }) // a connlost may overtake a running op
	return out
}

// ResetLog clears the event log and the notification list (Seq keeps counting).
func (s *Server) ResetLog() {
	s.mu.Lock()
	defer s.mu.Unlock()
	s.log, s.notes = nil, nil
}

// Notifications lists pg_notify calls in call order; Committed turns true when
// the calling transaction commits (immediately outside a transaction block).
func (s *Server) Notifications() []Notification {
	s.mu.Lock()
	defer s.mu.Unlock()
	out := make([]Notification, len(s.notes))
	for i, n := range s.notes {
		out[i] = *n
	}
	return out
}

func (s *Server) Tables() []string {
	s.mu.Lock()
	defer s.mu.Unlock()
	return s.db.names()
}

func (db *DB) names() []string {
	var out []string
	for n := range db.tables {
		out = append(out, n)
	}
	sort.Strings(out)
	return out
}

func (s *Server) Columns(name string) []Column {
	s.mu.Lock()
	defer s.mu.Unlock()
	if t := s.db.tables[name]; t != nil {
		return slices.Clone(t.cols)
	}
	return nil
}

// Rows returns the committed rows of a table in insertion order.
func (s *Server) Rows(name string) []map[string]Value {
	s.mu.Lock()
	defer s.mu.Unlock()
	t := s.db.tables[name]
	if t == nil {
		return nil
	}
	out := make([]map[string]Value, len(t.rows))
	for i, r := range t.rows {
		out[i] = map[string]Value{}
		for j, c := range t.cols {
			out[i][c.Name] = cloneValue(r.v[j])
		}
	}
	return out
}

func (s *Server) Indexes(name string) []Index {
	s.mu.Lock()
	defer s.mu.Unlock()
	t := s.db.tables[name]
	if t == nil {
		return nil
	}
	out := slices.Clone(t.idx)
	for i := range out {
		out[i].Cols = slices.Clone(out[i].Cols)
	}
	return out
}

// SetCommitHook installs a function that sees EVERY committed state another session could observe:
// it runs after each COMMIT and after each statement executed outside a transaction block that
// changed something. It runs under the server lock: use only the *DB accessors.
func (s *Server) SetCommitHook(h func(db *DB)) {
	s.mu.Lock()
	defer s.mu.Unlock()
	s.onCommit = h
}

// TableNames / RowsOf: read access to a state handed to a commit hook (or a snapshot)
func (db *DB) TableNames() []string { return db.names() }

func (db *DB) RowsOf(name string) []map[string]Value {
	t := db.tables[name]
	if t == nil {
		return nil
	}
	out := make([]map[string]Value, len(t.rows))
	for i, r := range t.rows {
		out[i] = map[string]Value{}
		for j, c := range t.cols {
			out[i][c.Name] = cloneValue(r.v[j])
		}
	}
	return out
}

// Snapshot returns a copy of the committed state.
func (s *Server) Snapshot() *DB {
	s.mu.Lock()
	defer s.mu.Unlock()
	return s.db.clone()
}

// Restore replaces the committed state. Pending effects of open transactions
// are kept, so call it only while no transaction is open.
func (s *Server) Restore(db *DB) {
	s.mu.Lock()
	defer s.mu.Unlock()
	s.db = db.clone()
}

// InsertRow inserts directly into the committed state. Values may be Values or
// plain Go ints / strings; they are coerced to the column types. Unlisted
// columns get their default. Unique indexes are enforced.
func (s *Server) InsertRow(name string, vals map[string]Value) error {
	s.mu.Lock()
	defer s.mu.Unlock()
	t := s.db.tables[name]
	if t == nil {
		return errf("42P01", "relation %q does not exist", name)
	}
	v := slices.Clone(t.defs)
	for k, x := range vals {
		i, perr := t.col(k)
		if perr != nil {
			return perr
		}
		if v[i], perr = coerce(cloneValue(x), t.cols[i].Type); perr != nil {
			return perr
		}
	}
	s.nextRow++
	if perr := t.insert([]row{{s.nextRow, v}}, true); perr != nil {
		return perr
	}
	return nil
}

// ---------------------------------------------------------------- operations

// view is committed state plus the connection's pending effects. Caller holds s.mu.
func (c *conn) view() *DB {
	db := c.s.db.clone()
	for _, e := range c.effs {
		db.apply(e, false)
	}
	return db
}

// op runs one logged operation: assigns Seq, consults the fault hook, executes
// and logs. alive=false means the connection has been closed.
func (c *conn) op(st *stmt, args []Value, data [][]Value) (res *result, perr *pgErr, alive bool) {
	s := c.s
	// the hold hook may block THIS connection's operation without stopping the others (it runs before the
	// operation takes its place in the global order)
	s.mu.Lock()
	hold := s.hold
	pre := Event{Conn: c.id, Kind: st.kind, SQL: st.sql, Args: args, Table: st.table, InTx: c.tx != 0}
	s.mu.Unlock()
	if hold != nil {
		hold(pre)
	}
	s.opMu.Lock()
	defer s.opMu.Unlock()
	s.mu.Lock()
	s.seq++
	ev := Event{Seq: s.seq, Conn: c.id, Kind: st.kind, SQL: st.sql, Args: args, Table: st.table, InTx: c.tx != 0}
	hook := s.hook
	s.mu.Unlock()
	f := NoFault
	if hook != nil {
		f = hook(ev)
	}
	s.mu.Lock()
	defer s.mu.Unlock()
	alive = true
	switch {
	case c.dead:
		ev.Err, alive = "connlost", false
	case f == DropConn:
		ev.Err, alive = "dropconn", false
	case f == DropAll:
		ev.Err, alive = "dropall", false
	case f == ErrorReply:
		perr = errf("XX000", "fakepg: injected fault")
	default:
		res, perr = c.exec(st, args, data)
	}
	if perr != nil {
		ev.Err = perr.code
		c.failTx(st)
	}
	if res != nil {
		ev.NRows = res.n
	}
	s.log = append(s.log, ev)
	switch f {
	case DropConn:
		s.kill(c, true)
	case DropAll:
		s.killAll()
	}
	return res, perr, alive
}

// logErr logs an operation rejected before execution (parse / bind errors).
func (c *conn) logErr(st *stmt, args []Value, perr *pgErr) {
	s := c.s
	s.opMu.Lock()
	defer s.opMu.Unlock()
	s.mu.Lock()
	defer s.mu.Unlock()
	s.seq++
	s.log = append(s.log, Event{Seq: s.seq, Conn: c.id, Kind: st.kind, SQL: st.sql, Args: args, Table: st.table, InTx: c.tx != 0, Err: perr.code})
	c.failTx(st)
}

// failTx applies the effect of a failed statement on the transaction state:
// a failed COMMIT rolls back, any other failure aborts an open transaction.
func (c *conn) failTx(st *stmt) {
	if c.tx == 0 {
		return
	}
	c.effs, c.notes = nil, nil
	if c.tx = 'E'; st.kind == "commit" {
		c.tx = 0
	}
}

// exec executes st atomically. Caller holds s.mu.
func (c *conn) exec(st *stmt, args []Value, data [][]Value) (*result, *pgErr) {
	s := c.s
	switch st.kind {
	case "begin":
		if c.tx == 0 {
			c.tx = 'T'
		}
		return &result{tag: "BEGIN"}, nil
	case "rollback":
		c.tx, c.effs, c.notes = 0, nil, nil
		return &result{tag: "ROLLBACK"}, nil
	case "commit":
		if c.tx == 'E' {
			c.tx, c.effs, c.notes = 0, nil, nil
			return &result{tag: "ROLLBACK"}, nil
		}
		db := s.db.clone()
		for _, e := range c.effs {
			if perr := db.apply(e, true); perr != nil {
				return nil, perr
			}
		}
		for _, n := range c.notes {
			n.Committed = true
		}
		s.db, c.tx, c.effs, c.notes = db, 0, nil, nil
		if s.onCommit != nil {
			s.onCommit(s.db)
		}
		return &result{tag: "COMMIT"}, nil
	}
	if st.err != nil {
		return nil, st.err
	}
	if c.tx == 'E' {
		return nil, errf("25P02", "current transaction is aborted, commands ignored until end of transaction block")
	}
	r := &run{db: c.view(), args: args, c: c}
	res, perr := r.safely(func() (*result, *pgErr) { return r.stmt(st, data) })
	if perr != nil {
		return nil, perr
	}
	for _, n := range r.notes {
		n.Committed = c.tx == 0
	}
	s.notes = append(s.notes, r.notes...)
	if c.tx != 0 {
		c.effs, c.notes = append(c.effs, r.effs...), append(c.notes, r.notes...)
	} else if len(r.effs) > 0 {
		s.db = r.db // r.db == committed clone + this statement's effects
		if s.onCommit != nil {
			s.onCommit(s.db)
		}
	}
	return res, nil
}
