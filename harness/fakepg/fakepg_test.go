package fakepg

import (
	"bytes"
	"context"
	"database/sql/driver"
	"errors"
	"fmt"
	"reflect"
	"strings"
	"testing"
	"time"

	"github.com/holiman/uint256"
	"github.com/indexsupply/shovel/dig"
	"github.com/indexsupply/shovel/eth"
	"github.com/indexsupply/shovel/jrpc2"
	"github.com/indexsupply/shovel/shovel"
	"github.com/indexsupply/shovel/shovel/config"
	"github.com/indexsupply/shovel/shovel/glf"
	"github.com/indexsupply/shovel/wctx"
	"github.com/indexsupply/shovel/wpg"
	"github.com/jackc/pgx/v5"
	"github.com/jackc/pgx/v5/pgconn"
	"github.com/jackc/pgx/v5/pgxpool"
)

// Statements copied verbatim from /repo/shovel/task.go.
const (
	updateQ = `
		insert into shovel.task_updates (
			chain_id,
			src_name,
			ig_name,
			num,
			hash,
			src_num,
			src_hash,
			stop,
			nblocks,
			nrows,
			latency
		)
		values ($1, $2, $3, $4, $5, $6, $7, $8, $9, $10, $11)
	`
	deleteQ = `
		delete from shovel.task_updates
		where src_name = $1
		and ig_name = $2
		and num >= $3
	`
	latestQ = `
		select num, hash
		from shovel.task_updates
		where src_name = $1
		and ig_name = $2
		order by num desc
		limit 1
	`
	depQ = `
		with latest as (
			select distinct on (ig_name)
			ig_name, num, hash
			from shovel.task_updates
			where src_name = $1
			and ig_name = ANY($2)
			order by ig_name, num desc
		)
		select num, hash
		from latest
		order by num asc
		limit 1;
	`
	pruneQ = `
		delete from shovel.task_updates
		where (src_name, ig_name, num) not in (
			select src_name, ig_name, num
			from (
				select
					src_name,
					ig_name,
					num,
					row_number() over(partition by src_name, ig_name order by num desc) as rn
				from shovel.task_updates
			) as s
			where rn <= $1
		)
	`
	tu = "shovel.task_updates"
)

var ctx = context.Background()

func start(t *testing.T) (*Server, *pgxpool.Pool) {
	t.Helper()
	s := New()
	url, err := s.Start()
	noErr(t, err)
	pool, err := wpg.NewPool(ctx, url)
	noErr(t, err)
	t.Cleanup(func() {
		done := make(chan struct{})
		go func() { pool.Close(); close(done) }() // blocks while a failed test still holds a connection
		select {
		case <-done:
		case <-time.After(2 * time.Second):
		}
		s.Close()
	})
	return s, pool
}

func noErr(t *testing.T, err error) {
	t.Helper()
	if err != nil {
		t.Fatalf("unexpected error: %v", err)
	}
}

func eq(t *testing.T, got, want any) {
	t.Helper()
	if !reflect.DeepEqual(got, want) {
		t.Fatalf("got %#v want %#v", got, want)
	}
}

func code(err error) string {
	var pe *pgconn.PgError
	if errors.As(err, &pe) {
		return pe.Code
	}
	return ""
}

func h(b byte) []byte { return append([]byte{b}, make([]byte, 31)...) }

func update(t *testing.T, pg wpg.Conn, src, ig string, n uint64) {
	t.Helper()
	_, err := pg.Exec(ctx, updateQ, uint64(1), src, ig, n, h(byte(n)), n+10, h(byte(n+10)), uint64(0), uint64(1), int64(3), 2*time.Second)
	noErr(t, err)
}

// nums lists the num column of task_updates rows for one integration.
func nums(s *Server, ig string) (out []string) {
	for _, r := range s.Rows(tu) {
		if r["ig_name"] == ig {
			out = append(out, string(r["num"].(Num)))
		}
	}
	return
}

func TestTaskStatements(t *testing.T) {
	s, pool := start(t)
	var (
		num  uint64
		hash []byte
	)
	eq(t, pool.QueryRow(ctx, latestQ, "main", "ig").Scan(&num, &hash), pgx.ErrNoRows)
	for n := uint64(7); n <= 9; n++ {
		update(t, pool, "main", "ig", n)
	}
	update(t, pool, "other", "ig", 99)
	eq(t, s.Rows(tu)[0], map[string]Value{"num": Num("7"), "hash": h(7), "insert_at": nil, "src_hash": h(17), "src_num": Num("17"),
		"nblocks": Num("1"), "nrows": Num("3"), "latency": Interval(2e6), "src_name": "main", "stop": Num("0"), "chain_id": Num("1"), "ig_name": "ig"})
	noErr(t, pool.QueryRow(ctx, latestQ, "main", "ig").Scan(&num, &hash))
	eq(t, num, uint64(9))
	eq(t, hash, h(9))
	_, err := pool.Exec(ctx, updateQ, 1, "main", "ig", 9, h(1), 1, h(1), 0, 1, 1, time.Second)
	eq(t, code(err), "23505")

	ev := s.Log()[len(s.Log())-1]
	eq(t, []any{ev.Kind, ev.Table, ev.Err, ev.InTx, ev.Args[3], ev.Args[10]}, []any{"exec", tu, "23505", false, Num("9"), Interval(1e6)})
	eq(t, ev.SQL, strings.TrimSpace(updateQ))

	// operator mutation: "num > $3" must behave as ">", unlike the original ">="
	tag, err := pool.Exec(ctx, strings.Replace(deleteQ, "num >= $3", "num > $3", 1), "main", "ig", uint64(8))
	noErr(t, err)
	eq(t, tag.RowsAffected(), int64(1))
	eq(t, nums(s, "ig"), []string{"7", "8", "99"})
	tag, err = pool.Exec(ctx, deleteQ, "main", "ig", uint64(8))
	noErr(t, err)
	eq(t, tag.String(), "DELETE 1")
	// dropping "and ig_name = $2" widens the delete (parameter numbers are interpreted, not positions)
	update(t, pool, "main", "ig2", 7)
	_, err = pool.Exec(ctx, "delete from shovel.task_updates where src_name = $1 and num <> $2", "main", 1)
	noErr(t, err)
	eq(t, nums(s, "ig"), []string{"99"})
	eq(t, nums(s, "ig2"), []string(nil))

	// asc instead of desc, web.go's single column variant, limit as parameter
	for n := uint64(3); n <= 5; n++ {
		update(t, pool, "main", "ig", n)
	}
	noErr(t, pool.QueryRow(ctx, strings.Replace(latestQ, "desc", "asc", 1), "main", "ig").Scan(&num, &hash))
	eq(t, num, uint64(3))
	noErr(t, pool.QueryRow(ctx, "select num from shovel.task_updates where src_name = $1 order by num desc limit $2", "main", 1).Scan(&num))
	eq(t, num, uint64(5))

	var ok bool
	noErr(t, pool.QueryRow(ctx, "select true from shovel.task_updates where hash = $1", h(4)).Scan(&ok))
	eq(t, ok, true)
	eq(t, pool.QueryRow(ctx, "select true from shovel.task_updates where hash = $1", h(42)).Scan(&ok), pgx.ErrNoRows)

	_, err = pool.Exec(ctx, "select count(*) from shovel.task_updates where num = $1", 1)
	eq(t, code(err), "42601")
	ev = s.Log()[len(s.Log())-1] // rejected at Parse time, still logged
	eq(t, []any{ev.Kind, ev.SQL, ev.Err}, []any{"query", "select count(*) from shovel.task_updates where num = $1", "42601"})
	_, err = pool.Exec(ctx, "delete from nope where a = $1", 1)
	eq(t, code(err), "42P01")
	_, err = pool.Exec(ctx, "delete from shovel.task_updates where nope = $1", 1)
	eq(t, code(err), "42703")
}

func TestTxVisibility(t *testing.T) {
	s, pool := start(t)
	var n uint64
	tx, err := pool.Begin(ctx)
	noErr(t, err)
	update(t, tx, "main", "ig", 1)
	noErr(t, tx.QueryRow(ctx, "select num from shovel.task_updates").Scan(&n)) // own writes are visible
	eq(t, pool.QueryRow(ctx, "select num from shovel.task_updates").Scan(&n), pgx.ErrNoRows)
	eq(t, len(s.Rows(tu)), 0)
	noErr(t, tx.Commit(ctx))
	noErr(t, pool.QueryRow(ctx, "select num from shovel.task_updates").Scan(&n))

	tx, err = pool.Begin(ctx)
	noErr(t, err)
	_, err = tx.Exec(ctx, deleteQ, "main", "ig", uint64(0))
	noErr(t, err)
	_, err = tx.Exec(ctx, "create table if not exists ddl_in_tx(a int)")
	noErr(t, err)
	eq(t, tx.QueryRow(ctx, "select num from shovel.task_updates").Scan(&n), pgx.ErrNoRows)
	noErr(t, tx.Rollback(ctx))
	eq(t, nums(s, "ig"), []string{"1"})
	eq(t, s.Tables(), []string{"shovel.integrations", "shovel.sources", tu})

	// two transactions insert the same key: the second COMMIT fails with 23505 and rolls back
	tx1, _ := pool.Begin(ctx)
	tx2, _ := pool.Begin(ctx)
	update(t, tx1, "main", "ig", 2)
	update(t, tx2, "main", "ig", 2)
	noErr(t, tx1.Commit(ctx))
	eq(t, code(tx2.Commit(ctx)), "23505")
	eq(t, nums(s, "ig"), []string{"1", "2"})
	var kinds []string
	for _, e := range s.Log() {
		kinds = append(kinds, fmt.Sprintf("%d%s %v %s", e.Conn, e.Kind, e.InTx, e.Err))
	}
	eq(t, kinds[len(kinds)-6:], []string{"1begin false ", "2begin false ", "1exec true ", "2exec true ", "1commit true ", "2commit true 23505"})
}

type valuer string

func (v valuer) Value() (driver.Value, error) { return string(v), nil }

func TestCopyFrom(t *testing.T) {
	s, pool := start(t)
	tbl := wpg.Table{Name: "tcopy", Unique: [][]string{{"from", "i"}}, Index: [][]string{{"b"}}, Columns: []wpg.Column{
		{Name: "from", Type: "text"}, {Name: "u", Type: "numeric"}, {Name: "eu", Type: "numeric"}, {Name: "i", Type: "int"},
		{Name: "i2", Type: "int2"}, {Name: "b", Type: "bytea"}, {Name: "ok", Type: "bool"}, {Name: "big", Type: "numeric"}, {Name: "neg", Type: "numeric"}}}
	for _, q := range tbl.DDL() {
		_, err := pool.Exec(ctx, q)
		noErr(t, err)
	}
	eq(t, s.Indexes("tcopy"), []Index{{"u_tcopy", true, []string{"from", "i"}}, {"shovel_b", false, []string{"b"}}})
	max := new(uint256.Int).SetAllOne()
	rows := [][]any{
		{"x", uint64(1 << 63), eth.Uint64(7), 3, 4, []byte{1, 2}, true, max, valuer("-5")},
		{"y", uint64(0), eth.Uint64(0), -3, 0, []byte{}, false, uint256.NewInt(0), nil},
	}
	cols := []string{"from", "u", "eu", "i", "i2", "b", "ok", "big", "neg"}
	n, err := pool.CopyFrom(ctx, pgx.Identifier{"tcopy"}, cols, pgx.CopyFromRows(rows))
	noErr(t, err)
	eq(t, n, int64(2))
	eq(t, s.Rows("tcopy"), []map[string]Value{
		{"from": "x", "u": Num("9223372036854775808"), "eu": Num("7"), "i": Num("3"), "i2": Num("4"), "b": []byte{1, 2}, "ok": true, "big": Num(max.Dec()), "neg": Num("-5")},
		{"from": "y", "u": Num("0"), "eu": Num("0"), "i": Num("-3"), "i2": Num("0"), "b": []byte{}, "ok": false, "big": Num("0"), "neg": nil},
	})
	var u, big uint256.Int
	var neg int64
	noErr(t, pool.QueryRow(ctx, `select u, big, neg from tcopy where "from" = 'x' and neg < 0 and b = '\x0102'`).Scan(&u, &big, &neg))
	eq(t, []any{u.Dec(), big.Dec(), neg}, []any{"9223372036854775808", max.Dec(), int64(-5)})

	// second COPY of the same rows violates u_tcopy, has no effect and aborts the transaction
	tx, err := pool.Begin(ctx)
	noErr(t, err)
	_, err = tx.CopyFrom(ctx, pgx.Identifier{"tcopy"}, cols, pgx.CopyFromRows(rows[:1]))
	eq(t, code(err), "23505")
	_, err = tx.Exec(ctx, "delete from tcopy")
	eq(t, code(err), "25P02")
	eq(t, tx.Commit(ctx), pgx.ErrTxCommitRollback)
	eq(t, len(s.Rows("tcopy")), 2)
	// NULL in a unique column never conflicts
	for i := 0; i < 2; i++ {
		_, err = pool.CopyFrom(ctx, pgx.Identifier{"tcopy"}, []string{"from"}, pgx.CopyFromRows([][]any{{"x"}}))
		noErr(t, err)
	}
	eq(t, len(s.Rows("tcopy")), 4)
	ev := s.Log()[len(s.Log())-1]
	eq(t, ev, Event{Seq: ev.Seq, Conn: ev.Conn, Kind: "copy", SQL: `copy "tcopy" ( "from" ) from stdin binary`, Table: "tcopy", NRows: 1})
	_, err = pool.CopyFrom(ctx, pgx.Identifier{"tcopy"}, []string{"nope"}, pgx.CopyFromRows([][]any{{"x"}}))
	eq(t, code(err), "42703")
	// a large COPY spans many CopyData messages
	var many [][]any
	for i := 0; i < 5000; i++ {
		many = append(many, []any{"z", i, bytes.Repeat([]byte{byte(i)}, 40)})
	}
	n, err = pool.CopyFrom(ctx, pgx.Identifier{"tcopy"}, []string{"from", "i", "b"}, pgx.CopyFromRows(many))
	noErr(t, err)
	eq(t, n, int64(5000))
	noErr(t, s.InsertRow("tcopy", map[string]Value{"from": "w", "i": 1, "b": []byte{9}}))
	eq(t, fmt.Sprint(s.InsertRow("tcopy", map[string]Value{"from": "w", "i": 1})), `23505: duplicate key value violates unique constraint "u_tcopy"`)
}

func TestDependencyQuery(t *testing.T) {
	_, pool := start(t)
	for _, r := range []struct {
		ig string
		n  uint64
	}{{"a", 1}, {"b", 1}, {"a", 2}, {"b", 2}, {"a", 3}, {"c", 9}} {
		update(t, pool, "main", r.ig, r.n)
	}
	update(t, pool, "other", "a", 50)
	dep := func(q string, deps []string) (num uint64) {
		t.Helper()
		var hash []byte
		err := pool.QueryRow(ctx, q, "main", deps).Scan(&num, &hash)
		if errors.Is(err, pgx.ErrNoRows) {
			return 0
		}
		noErr(t, err)
		eq(t, hash, h(byte(num)))
		return num
	}
	eq(t, dep(depQ, nil), uint64(0))
	eq(t, dep(depQ, []string{}), uint64(0))
	eq(t, dep(depQ, []string{"missing"}), uint64(0))
	eq(t, dep(depQ, []string{"a"}), uint64(3))
	eq(t, dep(depQ, []string{"a", "b"}), uint64(2))
	eq(t, dep(depQ, []string{"a", "b", "missing"}), uint64(2))
	// mutations of the statement are executed faithfully
	eq(t, dep(strings.Replace(depQ, "num desc", "num asc", 1), []string{"a", "b"}), uint64(1))
	eq(t, dep(strings.Replace(depQ, "num asc", "num desc", 1), []string{"a", "b"}), uint64(3))
	eq(t, dep(strings.Replace(depQ, "src_name = $1", "src_name <> $1", 1), []string{"a", "b"}), uint64(50))
	var n uint64
	err := pool.QueryRow(ctx, strings.Replace(depQ, "order by ig_name, num desc", "order by num desc", 1), "main", []string{"a"}).Scan(&n, new([]byte))
	eq(t, code(err), "42P10")
}

func TestPrune(t *testing.T) {
	s, pool := start(t)
	fill := func() {
		noErr(t, func() error { _, err := pool.Exec(ctx, "delete from shovel.task_updates"); return err }())
		for n := uint64(1); n <= 5; n++ {
			update(t, pool, "main", "a", n)
		}
		update(t, pool, "main", "b", 1)
		update(t, pool, "main", "b", 2)
	}
	fill()
	noErr(t, shovel.PruneTask(ctx, pool, 2))
	eq(t, nums(s, "a"), []string{"4", "5"})
	eq(t, nums(s, "b"), []string{"1", "2"})
	eq(t, s.Log()[len(s.Log())-1].NRows, 3)
	fill()
	_, err := pool.Exec(ctx, strings.Replace(strings.Replace(pruneQ, "rn <= $1", "rn < $1", 1), "num desc", "num asc", 1), 2)
	noErr(t, err)
	eq(t, nums(s, "a"), []string{"1"})
	eq(t, nums(s, "b"), []string{"1"})
}

func TestMigrateDiffDDL(t *testing.T) {
	s, pool := start(t)
	tbl := wpg.Table{Name: "mig", Columns: []wpg.Column{{Name: "a", Type: "text"}, {Name: "to", Type: "bytea"}}, Unique: [][]string{{"a"}}}
	noErr(t, tbl.Migrate(ctx, pool))
	tbl.Columns = append(tbl.Columns, wpg.Column{Name: "n", Type: "NUMERIC"}, wpg.Column{Name: "j", Type: "jsonb"})
	d, err := wpg.Diff(ctx, pool, "mig", tbl.Columns)
	noErr(t, err)
	eq(t, d, wpg.DiffDetails{Add: tbl.Columns[2:]})
	noErr(t, s.InsertRow("mig", map[string]Value{"a": "x"}))
	noErr(t, tbl.Migrate(ctx, pool))
	eq(t, s.Columns("mig"), []Column{{"a", "text"}, {"to", "bytea"}, {"n", "numeric"}, {"j", "jsonb"}})
	eq(t, s.Rows("mig"), []map[string]Value{{"a": "x", "to": nil, "n": nil, "j": nil}})
	eq(t, wpg.Indexes(ctx, pool, "mig"), []map[string]any{{"indexname": "u_mig", "indexdef": "CREATE UNIQUE INDEX u_mig ON public.mig USING btree (a)"}})
	d, err = wpg.Diff(ctx, pool, "task_updates", nil) // shovel.* tables are not in schema public
	noErr(t, err)
	eq(t, len(d.Remove), 0)

	exec := func(q string) string { _, err := pool.Exec(ctx, q); return code(err) }
	eq(t, exec("create table bad(a text, b geometry)"), "42704")
	eq(t, exec("create index if not exists i1 on mig (nope)"), "42703")
	eq(t, exec("create unique index if not exists u_mig on shovel.sources (nope)"), "") // name exists: no-op
	noErr(t, s.InsertRow("mig", map[string]Value{"a": "y", "n": 1}))
	noErr(t, s.InsertRow("mig", map[string]Value{"a": "z", "n": 1}))
	eq(t, exec("create unique index if not exists u2 on mig (n)"), "23505")
	eq(t, exec("create table t2(a int default 5, b boolean default false, c timestamptz default now()); insert into t2 (c) values (null); drop table if exists mig"), "")
	eq(t, s.Rows("t2"), []map[string]Value{{"a": Num("5"), "b": false, "c": nil}})
	eq(t, s.Tables(), []string{"shovel.integrations", "shovel.sources", tu, "t2"})
	eq(t, exec(shovel.Schema), "") // recognised as a whole, no-op
	eq(t, exec("set application_name = 'x'"), "")
	eq(t, exec("vacuum"), "42601")

	// web.go statements, config.Sources / config.Integrations
	_, err = pool.Exec(ctx, "insert into shovel.sources(chain_id, name, url)\n\t\tvalues ($1, $2, $3)", 5, "src", "http://x")
	noErr(t, err)
	_, err = pool.Exec(ctx, `insert into shovel.integrations(name, conf) values ($1, $2)`, "ig", []byte(`{"name":"ig","enabled":true}`))
	noErr(t, err)
	srcs, err := config.Sources(ctx, pool)
	noErr(t, err)
	eq(t, []any{len(srcs), srcs[0].Name, srcs[0].ChainID, srcs[0].URLs}, []any{1, "src", uint64(5), []string{"http://x"}})
	igs, err := config.Root{}.AllIntegrations(ctx, pool)
	noErr(t, err)
	eq(t, []any{len(igs), igs[0].Name, igs[0].Enabled}, []any{1, "ig", true})
	eq(t, s.Rows("shovel.integrations")[0]["conf"], Value(JSON(`{"name":"ig","enabled":true}`)))
	var db string
	noErr(t, pool.QueryRow(ctx, "select current_database()").Scan(&db))
}

func TestConcurrentConns(t *testing.T) {
	s := New()
	url, err := s.Start()
	noErr(t, err)
	pool, err := pgxpool.New(ctx, url)
	noErr(t, err)
	defer s.Close()
	defer pool.Close()
	noErr(t, pool.Ping(ctx)) // "-- ping": empty query, not logged
	eq(t, len(s.Log()), 0)
	errs := make(chan error, 8)
	for g := 0; g < 8; g++ {
		go func(ig string) {
			errs <- func() error {
				for n := uint64(1); n <= 20; n++ {
					tx, err := pool.Begin(ctx)
					if err != nil {
						return err
					}
					var num uint64
					err = tx.QueryRow(ctx, latestQ, "main", ig).Scan(&num, new([]byte))
					if n > 1 && (err != nil || num != n-1) || n == 1 && err != pgx.ErrNoRows {
						return fmt.Errorf("%s: latest=%d err=%v", ig, num, err)
					}
					if _, err = tx.Exec(ctx, updateQ, 1, "main", ig, n, h(1), 1, h(1), 0, 1, 1, time.Second); err != nil {
						return err
					}
					if err = tx.Commit(ctx); err != nil {
						return err
					}
				}
				return nil
			}()
		}(fmt.Sprint("ig", g))
	}
	for g := 0; g < 8; g++ {
		noErr(t, <-errs)
	}
	eq(t, len(s.Rows(tu)), 160)
	for i, e := range s.Log() {
		eq(t, e.Seq, i+1)
	}
}

// Every single-token deletion / duplication / neighbour swap of the known
// statements must be parsed, planned and executed without a panic.
func TestMutationRobustness(t *testing.T) {
	s := New()
	c := newConn(s, 1, nil)
	total, accepted := 0, 0
	for _, q := range []string{updateQ, deleteQ, latestQ, depQ, pruneQ, `select pg_notify('a-b', $1)`, `copy "t" ( "a", "b" ) from stdin binary;`,
		"create table if not exists x(a int, \"from\" numeric(78,0) not null default 5)", "create unique index if not exists u_x on x using btree (a, b desc)",
		"alter table shovel.sources add column if not exists c text", "select column_name, data_type from information_schema.columns where table_schema = 'public' and table_name = $1"} {
		toks, ok := lex(q)
		eq(t, ok, true)
		for i := range toks {
			for m := 0; m < 3; m++ {
				var parts []string
				for j, tk := range toks {
					switch {
					case j == i && m == 0:
					case j == i && m == 1:
						parts = append(parts, q[tk.a:tk.b], q[tk.a:tk.b])
					case j == i && m == 2 && j+1 < len(toks):
						parts = append(parts, q[toks[j+1].a:toks[j+1].b])
					case j == i+1 && m == 2:
						parts = append(parts, q[toks[i].a:toks[i].b])
					default:
						parts = append(parts, q[tk.a:tk.b])
					}
				}
				for _, st := range parseSQL(strings.Join(parts, " ")) {
					if total++; st.err != nil {
						continue
					}
					r := &run{db: s.db.clone(), c: c}
					var oids []uint32
					if _, perr := r.safely(func() (_ *result, perr *pgErr) { oids, _, perr = r.plan(st); return }); perr != nil {
						eq(t, perr.code == "XXBUG", false)
						continue
					}
					accepted++
					s.mu.Lock()
					_, perr := c.exec(st, make([]Value, len(oids)), nil)
					s.mu.Unlock()
					if perr != nil && perr.code == "XXBUG" {
						t.Fatalf("%s: %v", st.sql, perr)
					}
				}
			}
		}
	}
	if accepted == 0 || accepted*2 > total {
		t.Fatalf("suspicious acceptance rate %d/%d", accepted, total)
	}
	t.Logf("accepted %d of %d mutants", accepted, total)
}

// scenario is one shovel-like unit of work: begin, insert, copy, notify, commit.
func scenario(pool *pgxpool.Pool) error {
	tx, err := pool.Begin(ctx)
	if err != nil {
		return err
	}
	defer tx.Rollback(ctx)
	if _, err := tx.Exec(ctx, updateQ, 1, "main", "ig", 1, h(1), 1, h(1), 0, 1, 1, time.Second); err != nil {
		return err
	}
	if _, err := tx.CopyFrom(ctx, pgx.Identifier{"dst"}, []string{"a"}, pgx.CopyFromRows([][]any{{"x"}})); err != nil {
		return err
	}
	if _, err := tx.Exec(ctx, "select pg_notify('main-ig', $1)", "1"); err != nil {
		return err
	}
	return tx.Commit(ctx)
}

func TestFaults(t *testing.T) {
	for _, kind := range []string{"begin", "exec", "copy", "query", "commit"} {
		for _, fault := range []Fault{ErrorReply, DropConn, DropAll} {
			t.Run(fmt.Sprint(kind, fault), func(t *testing.T) {
				s, pool := start(t)
				_, err := pool.Exec(ctx, "create table dst(a text)")
				noErr(t, err)
				other, err := pool.Begin(ctx) // a bystander transaction on another connection
				noErr(t, err)
				update(t, other, "main", "bystander", 1)
				s.ResetLog()
				fired := 0
				s.SetFaultHook(func(e Event) Fault {
					if e.Kind == kind && fired == 0 {
						fired = e.Seq
						return fault
					}
					return NoFault
				})
				if scenario(pool) == nil {
					t.Fatal("scenario should fail")
				}
				s.SetFaultHook(nil)
				eq(t, []int{len(nums(s, "ig")), len(s.Rows("dst"))}, []int{0, 0})
				for _, n := range s.Notifications() {
					eq(t, n, Notification{"main-ig", "1", false})
				}
				var errs, lost []string
				for _, e := range s.Log() {
					if e.Seq >= fired && e.Err != "" {
						errs = append(errs, e.Kind+":"+e.Err)
					}
					if e.Kind == "connlost" {
						lost = append(lost, fmt.Sprintf("%d%v", e.Conn, e.InTx))
					}
				}
				inTx := fmt.Sprint(kind != "begin")
				switch fault {
				case ErrorReply:
					eq(t, errs[0], kind+":XX000")
					eq(t, lost, []string(nil))
					noErr(t, other.Commit(ctx))
				case DropConn:
					eq(t, errs[0], kind+":dropconn")
					eq(t, lost, []string{"2" + inTx})
					noErr(t, other.Commit(ctx))
				case DropAll:
					eq(t, errs[0], kind+":dropall")
					eq(t, lost, []string{"1true", "2" + inTx})
					if other.Commit(ctx) == nil {
						t.Fatal("bystander commit should fail")
					}
				}
				eq(t, len(nums(s, "bystander")), bint(fault != DropAll))
				// the pool recovers: at most one failure per dead idle connection
				for i := 0; ; i++ {
					if err = scenario(pool); err == nil {
						break
					} else if i > 4 {
						t.Fatalf("pool did not recover: %v", err)
					}
				}
				eq(t, []int{len(nums(s, "ig")), len(s.Rows("dst"))}, []int{1, 1})
				ns := s.Notifications()
				eq(t, ns[len(ns)-1], Notification{"main-ig", "1", true})
			})
		}
	}
}

func TestAbortedTxAndDropAllConns(t *testing.T) {
	s, pool := start(t)
	s.SetFaultHook(func(e Event) Fault {
		if strings.HasPrefix(e.SQL, "delete") {
			return ErrorReply
		}
		return NoFault
	})
	tx, err := pool.Begin(ctx)
	noErr(t, err)
	update(t, tx, "main", "ig", 1)
	_, err = tx.Exec(ctx, deleteQ, "main", "ig", 5)
	eq(t, code(err), "XX000")
	_, err = tx.Exec(ctx, updateQ, 1, "main", "ig", 2, h(1), 1, h(1), 0, 1, 1, time.Second)
	eq(t, code(err), "25P02")
	eq(t, tx.Commit(ctx), pgx.ErrTxCommitRollback)
	eq(t, len(s.Rows(tu)), 0)
	update(t, pool, "main", "ig", 1) // same connection is healthy again
	eq(t, s.Log()[len(s.Log())-1].Conn, 1)

	tx, err = pool.Begin(ctx)
	noErr(t, err)
	update(t, tx, "main", "ig", 2)
	snap := s.Snapshot()
	s.DropAllConns()
	if tx.Commit(ctx) == nil {
		t.Fatal("commit after DropAllConns should fail")
	}
	eq(t, nums(s, "ig"), []string{"1"})
	update(t, pool, "main", "ig", 3)
	eq(t, nums(s, "ig"), []string{"1", "3"})
	s.Restore(snap)
	eq(t, nums(s, "ig"), []string{"1"})
}

// ---------------------------------------------------------------- end to end with the real shovel.Task

type fakeSource struct{ blocks []eth.Block }

func (f *fakeSource) NextURL() *jrpc2.URL { return jrpc2.MustURL("http://fake") }

func (f *fakeSource) Latest(context.Context, string, uint64) (uint64, []byte, error) {
	b := &f.blocks[len(f.blocks)-1]
	return b.Num(), b.Hash(), nil
}

func (f *fakeSource) Hash(_ context.Context, _ string, n uint64) ([]byte, error) {
	if n >= uint64(len(f.blocks)) {
		return nil, fmt.Errorf("no block %d", n)
	}
	return f.blocks[n].Hash(), nil
}

func (f *fakeSource) Get(_ context.Context, _ string, _ *glf.Filter, start, limit uint64) ([]eth.Block, error) {
	if start+limit > uint64(len(f.blocks)) {
		return nil, fmt.Errorf("no blocks %d+%d", start, limit)
	}
	return f.blocks[start : start+limit], nil
}

var transfer = dig.Event{Name: "Transfer", Type: "event", Inputs: []dig.Input{
	{Indexed: true, Name: "from", Type: "address", Column: "from"},
	{Indexed: true, Name: "to", Type: "address", Column: "to"},
	{Name: "value", Type: "uint256", Column: "value"},
}}

// set makes blocks[n] a block with hash byte hb on top of blocks[n-1], holding one Transfer log.
func (f *fakeSource) set(n int, hb byte) {
	for len(f.blocks) <= n {
		f.blocks = append(f.blocks, eth.Block{})
	}
	b := &f.blocks[n]
	b.Header = eth.Header{Number: eth.Uint64(n), Hash: h(hb)}
	if n > 0 {
		b.Header.Parent = f.blocks[n-1].Hash()
		val := uint256.NewInt(uint64(1000 + int(hb))).Bytes32()
		b.Txs = eth.Txs{{Idx: 2, PrecompHash: h(hb), Receipt: eth.Receipt{Logs: eth.Logs{{Idx: 4, Address: bytes.Repeat([]byte{0xaa}, 20),
			Topics: []eth.Bytes{transfer.SignatureHash(), h(hb), append(make([]byte, 12), bytes.Repeat([]byte{hb}, 20)...)}, Data: val[:]}}}}}
	}
	f.blocks = f.blocks[:n+1]
}

func TestEndToEndTask(t *testing.T) {
	s, pool := start(t)
	conf := config.Root{Integrations: []config.Integration{{
		Name: "erc20", Enabled: true, Event: transfer, Notification: dig.Notification{Columns: []string{"block_num", "value"}},
		Block: []dig.BlockData{{Name: "log_addr", Column: "addr"}},
		Table: wpg.Table{Name: "transfers", Columns: []wpg.Column{{Name: "addr", Type: "bytea"}, {Name: "from", Type: "bytea"}, {Name: "to", Type: "bytea"}, {Name: "value", Type: "numeric"}}},
	}}}
	noErr(t, config.ValidateFix(&conf))
	dbtx, err := pool.Begin(ctx) // as in cmd/shovel/main.go
	noErr(t, err)
	_, err = dbtx.Exec(ctx, "select pg_advisory_xact_lock($1)", wpg.LockHash("main.migrate"))
	noErr(t, err)
	_, err = dbtx.Exec(ctx, shovel.Schema)
	noErr(t, err)
	noErr(t, config.Migrate(ctx, dbtx, conf))
	eq(t, s.Columns("transfers"), []Column(nil)) // DDL is transactional
	noErr(t, dbtx.Commit(ctx))
	eq(t, s.Indexes("transfers"), []Index{{"u_transfers", true, []string{"ig_name", "src_name", "block_num", "tx_idx", "log_idx", "abi_idx"}}})

	src := &fakeSource{}
	for n := 0; n <= 5; n++ {
		src.set(n, byte(n))
	}
	task, err := shovel.NewTask(
		shovel.WithContext(wctx.WithChainID(wctx.WithSrcName(ctx, "main"), 1)),
		shovel.WithPG(pool), shovel.WithSource(src), shovel.WithSrcName("main"), shovel.WithChainID(1),
		shovel.WithIntegration(conf.Integrations[0]), shovel.WithRange(1, 0),
	)
	noErr(t, err)
	for i := 0; i < 5; i++ {
		noErr(t, task.Converge())
	}
	eq(t, task.Converge(), shovel.ErrNothingNew)
	eq(t, nums(s, "erc20"), []string{"1", "2", "3", "4", "5"})
	rows := s.Rows("transfers")
	eq(t, len(rows), 5)
	eq(t, rows[2], map[string]Value{"addr": bytes.Repeat([]byte{0xaa}, 20), "from": h(3)[12:], "to": bytes.Repeat([]byte{3}, 20), "value": Num("1003"),
		"ig_name": "erc20", "src_name": "main", "block_num": Num("3"), "tx_idx": Num("2"), "log_idx": Num("4"), "abi_idx": Num("0")})
	eq(t, s.Notifications()[4], Notification{"main-erc20", "5,1005", true})
	last := s.Rows(tu)[4]
	eq(t, []Value{last["hash"], last["src_num"], last["src_hash"], last["nrows"], last["nblocks"], last["chain_id"], last["stop"]},
		[]Value{h(5), Num("5"), h(5), Num("1"), Num("1"), Num("1"), Num("0")})

	// reorg: block 5 is replaced and block 6 built on the replacement
	src.set(5, 55)
	src.set(6, 6)
	s.ResetLog()
	noErr(t, task.Converge()) // detects the reorg, deletes 5, re-indexes 5'
	var trace []string
	for _, e := range s.Log() {
		trace = append(trace, fmt.Sprintf("%s %s %d", e.Kind, e.Table, e.NRows))
	}
	eq(t, trace, []string{"begin  0", "query " + tu + " 1", "exec " + tu + " 1", "query " + tu + " 1", "exec transfers 1", "query " + tu + " 1", "commit  0",
		"begin  0", "copy transfers 1", "query  1", "exec " + tu + " 1", "commit  0"})
	noErr(t, task.Converge())
	eq(t, task.Converge(), shovel.ErrNothingNew)
	eq(t, nums(s, "erc20"), []string{"1", "2", "3", "4", "5", "6"})
	var vals []Value
	for _, r := range s.Rows("transfers") {
		vals = append(vals, r["value"])
	}
	eq(t, vals, []Value{Num("1001"), Num("1002"), Num("1003"), Num("1004"), Num("1055"), Num("1006")})
	eq(t, s.Rows(tu)[4]["hash"], Value(h(55)))

	// a fault at COMMIT of the insert transaction leaves no trace, and the next Converge repeats the work
	src.set(7, 7)
	s.SetFaultHook(func(e Event) Fault {
		if e.Kind == "commit" && s.Log()[len(s.Log())-1].Table == tu {
			return DropConn
		}
		return NoFault
	})
	if task.Converge() == nil {
		t.Fatal("converge should fail")
	}
	s.SetFaultHook(nil)
	eq(t, []int{len(nums(s, "erc20")), len(s.Rows("transfers"))}, []int{6, 6})
	noErr(t, task.Converge())
	eq(t, []int{len(nums(s, "erc20")), len(s.Rows("transfers"))}, []int{7, 7})
	noErr(t, shovel.PruneTask(ctx, pool, 1))
	eq(t, nums(s, "erc20"), []string{"7"})
}
