// Package core is the property-independent part of the correspondence harness:
// PRNG, case bookkeeping, the pipe to the Lean driver, verdicts, evidence and replay files.
package core

import (
	"bufio"
	"bytes"
	"encoding/hex"
	"encoding/json"
	"fmt"
	"os"
	"os/exec"
	"path/filepath"
	"sort"
	"strings"
	"time"
)

// ---------- PRNG (splitmix64; every random choice of a run derives from VERIF_SEED) ----------

type Rand struct{ s uint64 }

func NewRand(seed uint64) *Rand { return &Rand{s: seed*0x9E3779B97F4A7C15 + 0x1234567} }
func (r *Rand) U64() uint64 {
	r.s += 0x9E3779B97F4A7C15
	z := r.s
	z = (z ^ (z >> 30)) * 0xBF58476D1CE4E5B9
	z = (z ^ (z >> 27)) * 0x94D049BB133111EB
	return z ^ (z >> 31)
}
func (r *Rand) Intn(n int) int {
	if n <= 0 {
		return 0
	}
	return int(r.U64() % uint64(n))
}
func (r *Rand) Bool() bool           { return r.U64()&1 == 1 }
func (r *Rand) Chance(p, q int) bool { return r.Intn(q) < p }
func (r *Rand) Bytes(n int) []byte {
	b := make([]byte, n)
	for i := range b {
		b[i] = byte(r.U64())
	}
	return b
}
func (r *Rand) Fork() *Rand         { return NewRand(r.U64()) }
func Pick[T any](r *Rand, xs []T) T { return xs[r.Intn(len(xs))] }

// ---------- cases ----------

// Case is one explored input / history.
type Case struct {
	Op   string // line for the Lean driver; its answer is the MODEL's output ("" = no model op)
	Impl string // canonical output of the real implementation
	// Spec, when non-empty, is the output the property itself demands for this input
	// (from the executable Lean Spec via an oracle op, or an independent reference).
	Spec string
	// Oracle, when non-empty, is a driver line evaluating the Lean Spec predicate on
	// (input, implementation output); the driver answers "ok" or "viol <reason>".
	Oracle string
	// Oracles: further Spec lines, each must answer "ok" (used by stateful histories).
	Oracles []string
	// PanicOnly: the input is outside the property's domain; only crash-freedom is compared.
	PanicOnly  bool
	Key        string // distinctness key (defaults to Op)
	Nontrivial bool
	Tags       []string
	Class      string // known-finding class this input falls into ("" = none)
	Detail     any    // anything useful for the replay file
}

type Failure struct {
	Kind   string   `json:"kind"` // "oracle" | "correspondence"
	Op     string   `json:"op"`
	Impl   string   `json:"impl"`
	Model  string   `json:"model,omitempty"`
	Spec   string   `json:"spec,omitempty"`
	Reason string   `json:"reason,omitempty"`
	Class  string   `json:"class,omitempty"`
	Detail any      `json:"detail,omitempty"`
	Key    string   `json:"case,omitempty"`
	Tags   []string `json:"tags,omitempty"`
}

type Finding struct {
	Property string `json:"property"`
	Status   string `json:"status"` // open | fixed
	Class    string `json:"class"`
	What     string `json:"what"`
	Commit   string `json:"commit,omitempty"`
	Witness  any    `json:"witness,omitempty"`
}

// Env is what a property runner gets.
type Env struct {
	Prop     string
	Tier     string // quick | thorough
	Seed     uint64
	Rand     *Rand
	VerifDir string
	RepoDir  string
	Driver   string
	Search   bool // running as the search phase (tie broken): generate wider
	cases    []Case
	t0       time.Time
	notes    map[string]any
	extraObl []Obligation
}

type Obligation struct {
	Name string `json:"name"`
	OK   bool   `json:"ok"`
	Note string `json:"note,omitempty"`
}

func (e *Env) Thorough() bool { return e.Tier == "thorough" }

// OverBudget: generators with expensive cases stop adding new ones when the run has used its
// time budget (quick 90 s, thorough 20 min), e.g. because a change made every step slow.
func (e *Env) OverBudget() bool {
	if e.t0.IsZero() {
		e.t0 = time.Now()
	}
	b := 90 * time.Second
	if e.Thorough() {
		b = 20 * time.Minute
	}
	if e.Search && !e.Thorough() {
		b = 45 * time.Second // the search phase of a quick check: a few minutes in total over its seeds
	}
	if time.Since(e.t0) > b {
		e.Note("time_budget_exhausted", true)
		return true
	}
	return false
}
func (e *Env) N(quick, thorough int) int {
	if e.Thorough() {
		return thorough
	}
	if e.Search {
		// the search phase of a quick check widens the generators but must stay within minutes
		return min(thorough, 2*quick)
	}
	return quick
}
func (e *Env) Add(c Case) {
	if c.Key == "" {
		c.Key = c.Op
	}
	e.cases = append(e.cases, c)
}
func (e *Env) Note(k string, v any) {
	if e.notes == nil {
		e.notes = map[string]any{}
	}
	e.notes[k] = v
}

// Oblige records a non-Lean obligation checked by the harness (e.g. a regenerated fact matches).
func (e *Env) Oblige(name string, ok bool, note string) {
	e.extraObl = append(e.extraObl, Obligation{name, ok, note})
}

type Runner func(e *Env) error

// ---------- driver ----------

func RunDriver(driver string, lines []string) ([]string, error) {
	if len(lines) == 0 {
		return nil, nil
	}
	var in bytes.Buffer
	for _, l := range lines {
		if strings.ContainsAny(l, "\n\r") || l == "" {
			return nil, fmt.Errorf("driver line contains newline: %q", l)
		}
		in.WriteString(l)
		in.WriteByte('\n')
	}
	if f := os.Getenv("VERIF_DUMP_OPS"); f != "" {
		os.WriteFile(fmt.Sprintf("%s.%d", f, len(lines)), in.Bytes(), 0o644)
	}
	cmd := exec.Command(driver)
	cmd.Stdin = &in
	var out, errb bytes.Buffer
	cmd.Stdout = &out
	cmd.Stderr = &errb
	if err := cmd.Run(); err != nil {
		return nil, fmt.Errorf("driver: %v: %s", err, errb.String())
	}
	var res []string
	sc := bufio.NewScanner(&out)
	sc.Buffer(make([]byte, 1<<20), 1<<28)
	for sc.Scan() {
		res = append(res, sc.Text())
	}
	if len(res) != len(lines) {
		return nil, fmt.Errorf("driver answered %d lines for %d ops (stderr: %s)", len(res), len(lines), errb.String())
	}
	return res, nil
}

// ---------- verdicts ----------

type Report struct {
	Prop          string
	Evaluations   int
	Distinct      int
	TagHist       map[string]int
	Samples       []any
	KFail, OFail  []Failure
	KnownHits     map[string]int // class -> suppressed oracle failures
	ModelCompared int
	OracleChecked int
	Notes         map[string]any
	Obligations   []Obligation
}

func isPanic(s string) bool {
	return strings.HasPrefix(s, "panic") || strings.HasPrefix(s, "overread") || strings.HasPrefix(s, "timeout")
}

// Evaluate pipes the cases' model and oracle ops through the driver and classifies them.
func Evaluate(e *Env, findings []Finding) (*Report, error) {
	rep := &Report{Prop: e.Prop, TagHist: map[string]int{}, KnownHits: map[string]int{}, Notes: e.notes, Obligations: e.extraObl}
	var lines []string
	idxOp := make([]int, len(e.cases))
	nOp := make([]int, len(e.cases))
	idxOr := make([]int, len(e.cases))
	idxOrs := make([]int, len(e.cases))
	for i, c := range e.cases {
		idxOp[i], idxOr[i] = -1, -1
		if c.Op != "" {
			// an Op may hold several lines (a stateful session); the answers are joined the same way
			idxOp[i] = len(lines)
			ls := strings.Split(c.Op, "\n")
			nOp[i] = len(ls)
			lines = append(lines, ls...)
		}
		if c.Oracle != "" {
			idxOr[i] = len(lines)
			lines = append(lines, c.Oracle)
		}
		idxOrs[i] = len(lines)
		lines = append(lines, c.Oracles...)
	}
	outs, err := RunDriver(e.Driver, lines)
	if err != nil {
		return nil, err
	}
	open := map[string]bool{}
	for _, f := range findings {
		if f.Property == e.Prop && f.Status == "open" {
			open[f.Class] = true
		}
	}
	seen := map[string]bool{}
	for i, c := range e.cases {
		rep.Evaluations++
		for _, t := range c.Tags {
			rep.TagHist[t]++
		}
		if c.Nontrivial && !seen[c.Key] {
			seen[c.Key] = true
			rep.Distinct++
		}
		model := ""
		if idxOp[i] >= 0 {
			model = strings.Join(outs[idxOp[i]:idxOp[i]+nOp[i]], "\n")
			rep.ModelCompared++
			bad := false
			if model == "bad-op" || strings.Contains(model, "\nbad-op") || strings.HasPrefix(model, "bad-op\n") {
				bad = true
			} else if c.PanicOnly {
				bad = isPanic(model) != isPanic(c.Impl)
			} else {
				bad = model != c.Impl
			}
			if bad {
				rep.KFail = append(rep.KFail, Failure{Kind: "correspondence", Op: c.Op, Impl: c.Impl, Model: model, Class: c.Class, Detail: c.Detail, Key: c.Key, Tags: c.Tags})
			}
		}
		// oracle
		reason := ""
		if c.Spec != "" {
			rep.OracleChecked++
			if c.Spec != c.Impl {
				reason = "implementation output differs from what the specification demands"
			}
		}
		if idxOr[i] >= 0 {
			rep.OracleChecked++
			o := outs[idxOr[i]]
			if o != "ok" {
				reason = o
			}
		}
		for j := range c.Oracles {
			rep.OracleChecked++
			if o := outs[idxOrs[i]+j]; o != "ok" && reason == "" {
				reason = o + " [" + trunc(c.Oracles[j], 600) + "]"
			}
		}
		if reason != "" {
			if c.Class != "" && open[c.Class] {
				rep.KnownHits[c.Class]++
			} else {
				rep.OFail = append(rep.OFail, Failure{Kind: "oracle", Op: c.Op, Impl: c.Impl, Model: model, Spec: c.Spec, Reason: reason, Class: c.Class, Detail: c.Detail, Key: c.Key, Tags: c.Tags})
			}
		}
		if len(rep.Samples) < 6 && (i%max(1, len(e.cases)/6) == 0) {
			rep.Samples = append(rep.Samples, map[string]any{"op": trunc(c.Op, 400), "impl": trunc(c.Impl, 300), "model": trunc(model, 300), "tags": c.Tags})
		}
	}
	return rep, nil
}

func trunc(s string, n int) string {
	if len(s) > n {
		return s[:n] + "…"
	}
	return s
}

// ---------- files ----------

func LoadFindings(verif string) []Finding {
	var fs []Finding
	b, err := os.ReadFile(filepath.Join(verif, "known_findings.json"))
	if err != nil {
		return nil
	}
	var doc struct {
		Findings []Finding `json:"findings"`
	}
	if json.Unmarshal(b, &doc) == nil {
		fs = doc.Findings
	}
	return fs
}

func WriteReplay(verif, prop string, seed uint64, kind string, payload any) string {
	dir := filepath.Join(verif, "replays")
	os.MkdirAll(dir, 0o755)
	p := filepath.Join(dir, fmt.Sprintf("%s-%s-seed%d.json", prop, kind, seed))
	b, _ := json.MarshalIndent(payload, "", " ")
	os.WriteFile(p, b, 0o644)
	return p
}

type Evidence struct {
	PropertyID  string         `json:"property_id"`
	Tier        string         `json:"tier"`
	Seed        int64          `json:"seed"`
	Level       string         `json:"level"`
	Coverage    map[string]any `json:"coverage"`
	Assumptions []string       `json:"assumptions"`
	WallS       float64        `json:"wall_s"`
	Violations  int            `json:"violations"`
}

func WriteEvidence(verif string, ev Evidence) error {
	dir := filepath.Join(verif, "evidence")
	os.MkdirAll(dir, 0o755)
	b, _ := json.MarshalIndent(ev, "", " ")
	return os.WriteFile(filepath.Join(dir, ev.PropertyID+".json"), b, 0o644)
}

func SortedKeys(m map[string]int) []string {
	ks := make([]string, 0, len(m))
	for k := range m {
		ks = append(ks, k)
	}
	sort.Strings(ks)
	return ks
}

func Hex(b []byte) string {
	if len(b) == 0 {
		return "-"
	}
	return hex.EncodeToString(b)
}

func Since(t time.Time) float64 { return float64(time.Since(t).Milliseconds()) / 1000 }

// Protect runs f and maps a Go panic to the canonical output "panic".
func Protect(f func() string) (out string) {
	defer func() {
		if r := recover(); r != nil {
			out = "panic"
		}
	}()
	return f()
}
