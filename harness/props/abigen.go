package props

import (
	"fmt"
	"math/big"
	"strings"

	"github.com/indexsupply/shovel/dig"

	"verifharness/core"
)

// ---- type-directed generator of event declarations and ABI values (shared by C09-C13) ----

type aty struct {
	kind    byte   // 'e' elementary, 'a' array, 't' tuple
	name    string // elementary type name
	k       int    // array: 0 = dynamic
	zero    bool   // dynamic array whose dimension is WRITTEN "[0]" (the parser reads a zero length as dynamic)
	elem    *aty
	fields  []*aty
	sel     bool // leaf (or array of leaves) has a column
	indexed bool // top-level only
	col     string
	iname   string
}

var elemStatic = []string{"uint256", "uint8", "uint64", "uint128", "int256", "int8", "int64", "address", "bool", "bytes32", "bytes4", "bytes1", "bytes20"}
var elemDynamic = []string{"bytes", "string"}

func (t *aty) isDynLeaf() bool { return t.kind == 'e' && (t.name == "bytes" || t.name == "string") }

// base type and array suffixes, innermost dimension first
func (t *aty) peel() (*aty, string) {
	if t.kind != 'a' {
		return t, ""
	}
	b, suf := t.elem.peel()
	if t.k == 0 && t.zero {
		return b, suf + "[0]"
	}
	if t.k == 0 {
		return b, suf + "[]"
	}
	return b, suf + fmt.Sprintf("[%d]", t.k)
}

func (t *aty) typeString() string {
	b, suf := t.peel()
	if b.kind == 't' {
		return "tuple" + suf
	}
	return b.name + suf
}

// canonical (Solidity) signature fragment, written independently of dig.Input.Signature
func (t *aty) canon() string {
	b, suf := t.peel()
	if b.kind == 't' {
		var parts []string
		for _, f := range b.fields {
			parts = append(parts, f.canon())
		}
		return "(" + strings.Join(parts, ",") + ")" + suf
	}
	return b.name + suf
}

func (t *aty) input() dig.Input {
	b, _ := t.peel()
	in := dig.Input{Indexed: t.indexed, Name: t.iname, Type: t.typeString()}
	if b.kind == 't' {
		for _, f := range b.fields {
			in.Components = append(in.Components, f.input())
		}
	} else if b.sel {
		in.Column = b.col
	}
	return in
}

// desc tokens for the Lean driver: indexed,sel,type,ncomps,comps...
func (t *aty) desc(out *[]string) {
	b, _ := t.peel()
	ix, sl := "0", "0"
	if t.indexed {
		ix = "1"
	}
	if b.kind != 't' && b.sel {
		sl = "1"
	}
	n := 0
	if b.kind == 't' {
		n = len(b.fields)
	}
	*out = append(*out, ix, sl, t.typeString(), fmt.Sprint(n))
	if b.kind == 't' {
		for _, f := range b.fields {
			f.desc(out)
		}
	}
}

func descOf(inputs []*aty) string {
	out := []string{fmt.Sprint(len(inputs))}
	for _, in := range inputs {
		in.desc(&out)
	}
	return strings.Join(out, ",")
}

type abiGen struct {
	r      *core.Rand
	ncol   int
	nname  int
	selP   int // selection probability in 1/8
	maxK   int
	allowT bool // allow selected arrays under tuple-array elements (outside the C09 domain)
}

// gen builds a type; noSelArr: we are inside a tuple that is an array element -> arrays unselected
func (g *abiGen) gen(depth int, noSelArr, inArr bool) *aty {
	r := g.r
	choice := r.Intn(10)
	if depth <= 0 {
		choice = r.Intn(5)
	}
	switch {
	case choice < 4: // static leaf
		return g.leaf(core.Pick(r, elemStatic))
	case choice < 5:
		return g.leaf(core.Pick(r, elemDynamic))
	case choice < 8: // array
		var e *aty
		if r.Chance(1, 3) {
			e = g.gen(depth-1, noSelArr, true)
		} else if r.Chance(1, 4) {
			e = g.leaf(core.Pick(r, elemDynamic))
		} else {
			e = g.leaf(core.Pick(r, elemStatic))
		}
		k := 0
		if r.Bool() {
			k = 1 + r.Intn(3)
			if r.Chance(1, 4) {
				k = core.Pick(r, []int{10, 11, 12, 20, 21, 33})
				if k > g.maxK {
					k = g.maxK
				}
			}
		}
		if k > 3 && estWords(e)*k > 200 {
			k = 1 + r.Intn(3) // keep encodings small: they grow with the product of the dimensions
		}
		t := &aty{kind: 'a', k: k, elem: e, zero: k == 0 && r.Chance(1, 8)}
		if depth >= 1 && estWords(t) <= 40 && r.Chance(1, 5) {
			// a second (and sometimes third) array dimension with a different length: T[k][], T[][k], tuple[2][3], ...
			for d, nd := 0, 1+r.Intn(2); d < nd; d++ {
				k2 := 0
				if t.k == 0 || r.Bool() {
					k2 = 1 + r.Intn(3)
					if k2 == t.k {
						k2++
					}
				}
				if t.k != 0 && r.Bool() {
					k2 = 0
				}
				t = &aty{kind: 'a', k: k2, elem: t, zero: k2 == 0 && r.Chance(1, 8)}
			}
		}
		if noSelArr && !g.allowT {
			unselect(t)
		}
		return t
	default: // tuple
		n := 1 + r.Intn(4)
		t := &aty{kind: 't'}
		for i := 0; i < n; i++ {
			t.fields = append(t.fields, g.gen(depth-1, noSelArr || inArr, false))
		}
		return t
	}
}

func unselect(t *aty) {
	t.sel = false
	if t.elem != nil {
		unselect(t.elem)
	}
	for _, f := range t.fields {
		unselect(f)
	}
}

func (g *abiGen) leaf(name string) *aty {
	t := &aty{kind: 'e', name: name}
	g.nname++
	t.iname = fmt.Sprintf("f%d", g.nname)
	if g.r.Intn(8) < g.selP {
		t.sel = true
	}
	return t
}

// assign column names c0.. in declaration order to selected leaves; give names to everything
func assignCols(ts []*aty, n *int, names *int) {
	for _, t := range ts {
		b, _ := t.peel()
		*names++
		t.iname = fmt.Sprintf("i%d", *names)
		if b.kind == 't' {
			assignCols(b.fields, n, names)
		} else if b.sel {
			b.col = fmt.Sprintf("c%d", *n)
			*n++
		}
	}
}

func (g *abiGen) event(maxInputs int) []*aty {
	n := 1 + g.r.Intn(maxInputs)
	var ins []*aty
	for i := 0; i < n; i++ {
		t := g.gen(3, false, false)
		if g.r.Chance(1, 4) {
			// indexed inputs are topics: keep them elementary static
			t = g.leaf(core.Pick(g.r, elemStatic))
			t.indexed = true
		}
		if !t.indexed && g.r.Chance(1, 20) {
			// a static element type under a dimension WRITTEN [0], itself the element of a dynamic array: T[0][]
			lf := g.leaf(core.Pick(g.r, elemStatic))
			t = &aty{kind: 'a', k: 0, elem: &aty{kind: 'a', k: 0, zero: true, elem: lf}}
		}
		ins = append(ins, t)
	}
	var nc, nn int
	assignCols(ins, &nc, &nn)
	g.ncol = nc
	return ins
}

// ---- values ----

func (g *abiGen) value(t *aty, out *[]string) {
	r := g.r
	switch t.kind {
	case 'e':
		if t.isDynLeaf() {
			n := 0
			switch r.Intn(5) {
			case 0:
			case 1:
				n = 32
			case 2:
				n = r.Intn(100)
			default:
				n = 1 + r.Intn(40)
			}
			b := r.Bytes(n)
			if n == 0 {
				*out = append(*out, "b:")
			} else {
				*out = append(*out, "b:"+core.Hex(b))
			}
			return
		}
		w := make([]byte, 32)
		switch {
		case t.name == "bool":
			w[31] = byte(r.Intn(2))
		case t.name == "address":
			copy(w[12:], r.Bytes(20))
		case strings.HasPrefix(t.name, "bytes"):
			var n int
			fmt.Sscanf(t.name, "bytes%d", &n)
			copy(w, r.Bytes(n))
		case strings.HasPrefix(t.name, "int"):
			var n int
			fmt.Sscanf(t.name, "int%d", &n)
			copy(w[32-n/8:], r.Bytes(n/8))
			if r.Chance(1, 3) {
				// boundary values of the machine-word conversions: 0, +-1, +-2^63, 2^63-1, 2^64-1, 2^64, min, max
				b := boundaryInt(r, n)
				copy(w[32-n/8:], b[32-n/8:])
			}
			if w[32-n/8]&0x80 != 0 { // sign-extend
				for i := 0; i < 32-n/8; i++ {
					w[i] = 0xff
				}
			}
		default:
			var n int
			fmt.Sscanf(t.name, "uint%d", &n)
			copy(w[32-n/8:], r.Bytes(n/8))
			if r.Chance(1, 4) {
				b := boundaryInt(r, n)
				w = make([]byte, 32)
				copy(w[32-n/8:], b[32-n/8:])
			}
			if r.Chance(1, 6) {
				w = make([]byte, 32) // zero
			}
		}
		*out = append(*out, "w:"+core.Hex(w))
	case 'a':
		n := t.k
		if n == 0 {
			n = r.Intn(4)
			if r.Chance(1, 10) {
				n = 5 + r.Intn(6)
			}
		}
		*out = append(*out, fmt.Sprintf("a:%d", n))
		for i := 0; i < n; i++ {
			g.value(t.elem, out)
		}
	case 't':
		*out = append(*out, fmt.Sprintf("t:%d", len(t.fields)))
		for _, f := range t.fields {
			g.value(f, out)
		}
	}
}

// the value of the event's data tuple: non-indexed inputs in order
func (g *abiGen) dataValue(inputs []*aty) string {
	var out []string
	var n int
	for _, in := range inputs {
		if !in.indexed {
			n++
		}
	}
	out = append(out, fmt.Sprintf("t:%d", n))
	for _, in := range inputs {
		if !in.indexed {
			g.value(in, &out)
		}
	}
	return strings.Join(out, ",")
}

func eventOf(name string, inputs []*aty) dig.Event {
	ev := dig.Event{Name: name, Type: "event"}
	for _, in := range inputs {
		ev.Inputs = append(ev.Inputs, in.input())
	}
	return ev
}

// boundaryInt: a 32-byte big-endian word holding (mod 2^256, two's complement) one of the values at which
// 64-bit conversions change behaviour; the caller keeps the low n bits
func boundaryInt(r *core.Rand, n int) []byte {
	two := big.NewInt(2)
	p := func(k int64) *big.Int { return new(big.Int).Exp(two, big.NewInt(k), nil) }
	cands := []*big.Int{big.NewInt(0), big.NewInt(1), big.NewInt(-1), p(63), new(big.Int).Sub(p(63), big.NewInt(1)), new(big.Int).Add(p(63), big.NewInt(1)),
		new(big.Int).Sub(p(64), big.NewInt(1)), p(64), new(big.Int).Neg(p(63)), new(big.Int).Sub(new(big.Int).Neg(p(63)), big.NewInt(1)),
		new(big.Int).Sub(p(int64(n-1)), big.NewInt(1)), new(big.Int).Neg(p(int64(n - 1))), big.NewInt(10_000_000_000_000_000_00), p(62), p(32)}
	v := new(big.Int).Mod(core.Pick(r, cands), p(256))
	out := make([]byte, 32)
	v.FillBytes(out)
	return out
}

// estWords: a rough count of the 32-byte words an encoding of t occupies (dynamic dimensions count as 3)
func estWords(t *aty) int {
	switch t.kind {
	case 'a':
		k := t.k
		if k == 0 {
			k = 3
		}
		return 1 + k*estWords(t.elem)
	case 't':
		n := 0
		for _, f := range t.fields {
			n += estWords(f)
		}
		return n
	}
	return 2
}
