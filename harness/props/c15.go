package props

import (
	"context"
	"encoding/json"
	"fmt"
	"net/http/httptest"
	"sort"
	"strings"
	"sync"
	"time"

	"github.com/indexsupply/shovel/dig"
	"github.com/indexsupply/shovel/eth"
	"github.com/indexsupply/shovel/shovel"
	"github.com/indexsupply/shovel/shovel/config"
	"github.com/indexsupply/shovel/shovel/web"
	"github.com/indexsupply/shovel/wpg"
	"github.com/indexsupply/shovel/wstrings"
	"github.com/jackc/pgx/v5/pgxpool"

	"verifharness/core"
	"verifharness/fakepg"
	"verifharness/simnode"
)

func init() {
	Registry["C15"] = runC15
	Rules["C15"] = "a rich configuration (two integrations with nested tuple components, filters and filter references on inputs, nested components and block fields, unique and index column lists, notification columns, a source) is mutated at EVERY string-valued position of its JSON tree, in turn, with each of 8 hostile strings (quote, semicolon, space, double quote, parenthesis, comment, NUL, dollar), for the file path (ValidateFix) and the dashboard path (CheckUserInput only, plus the real SaveIntegration handler); if validation accepts, every piece of SQL the code then issues (DDL, Migrate on a fake PostgreSQL, reference lookups, notifications, deletes, application_name, a Converge step) is searched for the marker; chain data (addresses, topics, strings, input) with SQL metacharacters goes through Insert the same way; wstrings.Safe is compared with the Lean model on every ASCII character and sampled Unicode. non-trivial = mutated position that is spliced or checked; distinct by (path, marker, entry point)"
}

const mark = "zq7"

// note: "--" is made of hyphens, which the identifier check (and the property) allows
var hostile = []string{"'x", ";x", " x", "\"x", ")x", "(x", "\x00x", "$1"}

// all string positions of a JSON tree
func stringPaths(v any, path string, out *[]string) {
	switch x := v.(type) {
	case map[string]any:
		keys := make([]string, 0, len(x))
		for k := range x {
			keys = append(keys, k)
		}
		sort.Strings(keys)
		for _, k := range keys {
			stringPaths(x[k], path+"."+k, out)
		}
	case []any:
		for i := range x {
			stringPaths(x[i], fmt.Sprintf("%s[%d]", path, i), out)
		}
	case string:
		*out = append(*out, path)
	}
}

func setPath(v any, path, want string, val string) bool {
	switch x := v.(type) {
	case map[string]any:
		for k := range x {
			p := path + "." + k
			if p == want {
				if _, ok := x[k].(string); ok {
					x[k] = val
					return true
				}
			}
			if strings.HasPrefix(want, p) && setPath(x[k], p, want, val) {
				return true
			}
		}
	case []any:
		for i := range x {
			p := fmt.Sprintf("%s[%d]", path, i)
			if p == want {
				if _, ok := x[i].(string); ok {
					x[i] = val
					return true
				}
			}
			if strings.HasPrefix(want, p) && setPath(x[i], p, want, val) {
				return true
			}
		}
	}
	return false
}

func c15BaseIntegrations() []config.Integration {
	a := config.Integration{Name: "iga", Enabled: true, FilterAGG: "and"}
	a.Table = wpg.Table{Name: "ta", Columns: []wpg.Column{{Name: "ev_to", Type: "bytea"}, {Name: "ev_value", Type: "numeric"}, {Name: "log_addr", Type: "bytea"}, {Name: "inner_b", Type: "bytea"}},
		Index: [][]string{{"ev_to"}, {"log_addr", "ev_to"}}}
	a.Event = dig.Event{Name: "Transfer", Type: "event", Inputs: []dig.Input{
		{Indexed: true, Name: "from", Type: "address"},
		{Indexed: true, Name: "to", Type: "address", Column: "ev_to", Filter: dig.Filter{Op: "contains", Arg: []string{"0x0000000000000000000000000000000000000001"}}},
		{Name: "value", Type: "uint256", Column: "ev_value"},
		{Name: "t", Type: "tuple", Components: []dig.Input{
			{Name: "a", Type: "uint8"},
			{Name: "b", Type: "bytes32", Column: "inner_b", Filter: dig.Filter{Op: "!contains", Ref: dig.Ref{Integration: "igb", Column: "tx_hash"}}},
		}},
	}}
	a.Block = []dig.BlockData{{Name: "log_addr", Column: "log_addr", Filter: dig.Filter{Op: "contains", Ref: dig.Ref{Integration: "igb", Column: "tx_hash"}}}}
	a.Notification = dig.Notification{Columns: []string{"ev_to", "ev_value"}}
	a.Sources = []config.Source{{Name: "src1", Start: 1}}
	b := config.Integration{Name: "igb", Enabled: true}
	b.Table = wpg.Table{Name: "tb", Columns: []wpg.Column{{Name: "tx_hash", Type: "bytea"}, {Name: "block_time", Type: "numeric"}, {Name: "ig_name", Type: "text"}, {Name: "src_name", Type: "text"}, {Name: "block_num", Type: "numeric"}, {Name: "tx_idx", Type: "int"}},
		Unique: [][]string{{"ig_name", "src_name", "block_num", "tx_idx"}}}
	b.Block = []dig.BlockData{{Name: "tx_hash", Column: "tx_hash"}, {Name: "block_time", Column: "block_time"}}
	b.Sources = []config.Source{{Name: "src1", Start: 1}}
	// the dependency list is an exported field without a JSON tag: a configuration (file or dashboard) may
	// spell it out under the key "Dependencies"; it is only ever a query PARAMETER
	b.Dependencies = []string{"igz"}
	// a second and a third integration writing to iga's table: shared tables are merged for the DDL,
	// but every integration's own column types, unique and index lists are spliced by Migrate
	a.Table.Unique = [][]string{{"ig_name", "src_name", "block_num", "tx_idx", "log_idx", "ev_to"}}
	mk := func(name string) config.Integration {
		c := config.Integration{Name: name, Enabled: true}
		c.Table = wpg.Table{Name: "ta", Columns: []wpg.Column{{Name: "ev_to", Type: "bytea"}, {Name: "block_time", Type: "numeric"}},
			Index: [][]string{{"block_time"}}, Unique: [][]string{{"ig_name", "src_name", "block_num", "tx_idx", "log_idx", "block_time"}}}
		c.Event = dig.Event{Name: "Transfer", Type: "event", Inputs: []dig.Input{
			{Indexed: true, Name: "from", Type: "address"},
			{Indexed: true, Name: "to", Type: "address", Column: "ev_to"},
			{Name: "value", Type: "uint256"},
		}}
		c.Block = []dig.BlockData{{Name: "block_time", Column: "block_time"}}
		c.Sources = []config.Source{{Name: "src1", Start: 1}}
		return c
	}
	return []config.Integration{mk("igz"), a, b, mk("igc")}
}

type sqlSink struct {
	mu   sync.Mutex
	text []string
}

func (s *sqlSink) add(xs ...string) {
	s.mu.Lock()
	s.text = append(s.text, xs...)
	s.mu.Unlock()
}

func (s *sqlSink) leak() string {
	s.mu.Lock()
	defer s.mu.Unlock()
	for _, t := range s.text {
		if strings.Contains(t, mark) {
			return t
		}
	}
	return ""
}

// exercise every SQL-issuing path with the (accepted) configuration; collects SQL text
func c15Exercise(igs []config.Integration, srcName string, sink *sqlSink) {
	ctx := e2eCtx(srcName, 7)
	root := config.Root{Integrations: igs}
	core.Protect(func() string { sink.add(config.DDL(root)...); return "" })
	// Migrate + a task on a fake PostgreSQL
	pg := fakepg.New()
	url, err := pg.Start()
	if err == nil {
		cfg, _ := pgxpool.ParseConfig(url)
		cfg.MaxConns = 4
		if pool, err := pgxpool.NewWithConfig(ctx, cfg); err == nil {
			core.Protect(func() string {
				conn, err := pool.Acquire(ctx)
				if err == nil {
					config.Migrate(ctx, conn, root)
					conn.Release()
				}
				return ""
			})
			node := simnode.NewNode(transferChain(4, 3))
			for _, ig := range igs {
				core.Protect(func() string {
					t, err := shovel.NewTask(shovel.WithContext(ctx), shovel.WithPG(pool), shovel.WithRange(1, 0), shovel.WithSrcName(srcName),
						shovel.WithChainID(7), shovel.WithSource(jrpcFor(node)), shovel.WithIntegration(ig))
					if err == nil {
						t.Converge()
						t.Delete(pool, 1)
					}
					return ""
				})
			}
			node.Close()
			for _, ev := range pg.Log() {
				sink.add(ev.SQL)
			}
			done := make(chan struct{})
			go func() { pool.Close(); close(done) }()
			select {
			case <-done:
			case <-time.After(time.Second):
			}
		}
		pg.Close()
	}
	// row builder paths on a recording connection: reference lookups, notifications, delete
	for _, ig := range igs {
		core.Protect(func() string {
			d, err := dig.New(ig.Name, ig.Event, ig.Block, ig.Table, ig.Notification, ig.FilterAGG)
			if err != nil {
				return ""
			}
			fc := &fakeConn{refs: map[string]map[string]bool{}}
			var mu sync.Mutex
			var b eth.Block
			b.Header.Number = 5
			tx := eth.Tx{}
			tx.PrecompHash = []byte{1, 2, 3}
			topics := []eth.Bytes{d.Event.SignatureHash(), make([]byte, 32), append(make([]byte, 31), 1)}
			tx.Logs = eth.Logs{{Idx: 1, Address: make([]byte, 20), Topics: topics, Data: make([]byte, 96)}}
			b.Txs = eth.Txs{tx}
			d.Insert(ctx, &mu, fc, []eth.Block{b})
			d.Delete(ctx, fc, 1)
			for _, q := range fc.queries {
				sink.add(q.SQL)
			}
			for _, q := range fc.execs {
				sink.add(q.SQL)
			}
			return ""
		})
	}
}

func runC15(e *core.Env) error {
	r := e.Rand
	// ---- wstrings.Safe vs the Lean model: all ASCII, sampled Unicode
	var safeOps, safeOuts []string
	for c := 0; c < 128; c++ {
		s := "ab" + string(rune(c)) + "c"
		out := "ok"
		if wstrings.Safe(s) != nil {
			out = "err"
		}
		safeOps = append(safeOps, fmt.Sprintf("safe %x", s))
		safeOuts = append(safeOuts, out)
	}
	e.Add(core.Case{Op: strings.Join(safeOps, "\n"), Impl: strings.Join(safeOuts, "\n"), Nontrivial: true, Tags: []string{"safe-ascii"}, Key: "safe-ascii"})
	// SQL metacharacters are never accepted
	for _, c := range "'\";() \t\n\x00$,.*=<>/\\`|&%+[]{}:!?#@~^" {
		if wstrings.Safe("a"+string(c)) == nil {
			e.Add(core.Case{Impl: fmt.Sprintf("Safe accepts %q", c), Spec: "rejected", Key: fmt.Sprintf("safe-meta %d", c)})
		}
	}
	// ---- every string position x hostile string
	base := c15BaseIntegrations()
	raw, _ := json.Marshal(base)
	var tree any
	json.Unmarshal(raw, &tree)
	var paths []string
	stringPaths(tree, "", &paths)
	e.Note("string_positions", len(paths))
	step := 1
	if !e.Thorough() && !e.Search {
		step = 3 // quick tier: every position with a rotating third of the hostile strings
	}
	for pi, path := range paths {
		for hi := pi % step; hi < len(hostile); hi += step {
			if e.OverBudget() {
				break
			}
			val := mark + hostile[hi]
			for _, entry := range []string{"file", "dashboard", "file-disabled"} {
				var t2 any
				json.Unmarshal(raw, &t2)
				if !setPath(t2, "", path, val) {
					continue
				}
				mut, _ := json.Marshal(t2)
				var igs []config.Integration
				if err := json.Unmarshal(mut, &igs); err != nil {
					continue
				}
				// sources are not part of the generic tree walk (custom JSON): keep them
				for i := range igs {
					igs[i].Sources = base[i].Sources
					if entry == "file-disabled" {
						// only task creation honours `enabled`: DDL and Migrate run over every integration
						igs[i].Enabled = false
					}
				}
				root := config.Root{Integrations: igs, Sources: []config.Source{{Name: "src1", ChainID: 7, URLs: []string{"http://127.0.0.1:1"}}}}
				var verr error
				if entry == "file" || entry == "file-disabled" {
					verr = config.ValidateFix(&root)
				} else {
					verr = config.CheckUserInput(root) // what SaveIntegration runs; ValidateFix is NOT run on this path
				}
				verdict := "rejected"
				if verr == nil {
					sink := &sqlSink{}
					c15Exercise(root.Integrations, "src1", sink)
					verdict = "accepted, marker never in SQL text"
					if l := sink.leak(); l != "" {
						verdict = "MARKER IN SQL TEXT: " + trunc2(l)
					}
				}
				spec := verdict
				if strings.HasPrefix(verdict, "MARKER") {
					spec = "rejected, or marker never in SQL text"
				}
				e.Add(core.Case{Impl: verdict, Spec: spec, Key: fmt.Sprintf("c15 %s %s %d", entry, path, hi), Nontrivial: true,
					Tags: []string{"position", "entry=" + entry, "verdict=" + strings.SplitN(verdict, ",", 2)[0]}, Detail: map[string]any{"path": path, "value": val, "entry": entry}})
			}
		}
	}
	// source name (file path) and the SaveSource / SaveIntegration handlers
	for hi := range hostile {
		root := config.Root{Integrations: base, Sources: []config.Source{{Name: mark + hostile[hi], ChainID: 7}}}
		verdict := "rejected"
		if config.ValidateFix(&root) == nil {
			sink := &sqlSink{}
			c15Exercise(root.Integrations, mark+hostile[hi], sink)
			verdict = "accepted"
			if l := sink.leak(); l != "" {
				verdict = "MARKER IN SQL TEXT: " + trunc2(l)
			}
		}
		e.Add(core.Case{Impl: verdict, Spec: "rejected", Key: fmt.Sprintf("c15 source-name %d", hi), Nontrivial: true, Tags: []string{"source-name"}})
		// a file that declares sources only (its integrations live in the database, stored through the
		// dashboard, and refer to the file's sources by name): the source name is checked all the same
		root2 := config.Root{Sources: []config.Source{{Name: mark + hostile[hi], ChainID: 7}}}
		verdict = "rejected"
		if config.ValidateFix(&root2) == nil {
			sink := &sqlSink{}
			c15Exercise(base, mark+hostile[hi], sink)
			verdict = "accepted"
			if l := sink.leak(); l != "" {
				verdict = "MARKER IN SQL TEXT: " + trunc2(l)
			}
		}
		e.Add(core.Case{Impl: verdict, Spec: "rejected", Key: fmt.Sprintf("c15 source-name-only-sources-in-file %d", hi), Nontrivial: true, Tags: []string{"source-name", "file-without-integrations"}})
		// the name inside an integration's source REFERENCE (it is only a look-up key into the declared sources;
		// here the reference even carries a url of its own): refused, or never part of any SQL text
		for _, entry := range []string{"file", "dashboard"} {
			igs := c15BaseIntegrations()
			ig := igs[1]
			ig.Sources = []config.Source{{Name: mark + hostile[hi], ChainID: 7, URLs: []string{"http://127.0.0.1:1"}, Start: 1}}
			root3 := config.Root{Sources: []config.Source{{Name: "src1", ChainID: 7, URLs: []string{"http://127.0.0.1:1"}}}, Integrations: []config.Integration{ig}}
			var verr error
			if entry == "file" {
				verr = config.ValidateFix(&root3)
			} else {
				verr = config.CheckUserInput(root3)
			}
			verdict = "rejected"
			if verr == nil {
				pg := fakepg.New()
				url, _ := pg.Start()
				pool, perr := pgxpool.New(context.Background(), url)
				if perr == nil {
					conf3 := root3
					if entry == "dashboard" {
						cj, _ := json.Marshal(ig)
						pg.InsertRow("shovel.integrations", map[string]fakepg.Value{"name": ig.Name, "conf": fakepg.JSON(string(cj))})
						conf3 = config.Root{Sources: root3.Sources}
					}
					_, lerr := shovel.VerifLoadTasks(context.Background(), pool, conf3)
					sink := &sqlSink{}
					for _, ev := range pg.Log() {
						sink.add(ev.SQL)
					}
					switch {
					case sink.leak() != "":
						verdict = "MARKER IN SQL TEXT: " + trunc2(sink.leak())
					case lerr != nil:
						verdict = "rejected"
					default:
						verdict = "accepted, marker never in SQL text"
					}
					go pool.Close()
				}
				pg.Close()
			}
			spec := verdict
			if strings.HasPrefix(verdict, "MARKER") {
				spec = "rejected, or marker never in SQL text"
			}
			e.Add(core.Case{Impl: verdict, Spec: spec, Key: fmt.Sprintf("c15 source-reference-name %s %d", entry, hi), Nontrivial: true, Tags: []string{"source-reference-name", "entry=" + entry}})
		}
	}
	// the real dashboard handlers must reject hostile identifiers before storing anything
	{
		pg := fakepg.New()
		url, _ := pg.Start()
		pool, _ := pgxpool.New(context.Background(), url)
		conf := config.Root{}
		mgr := shovel.NewManager(context.Background(), pool, conf)
		h := web.New(mgr, &conf, pool)
		for hi := range hostile {
			igs := c15BaseIntegrations()
			igs[0].Table.Name = mark + hostile[hi]
			body, _ := json.Marshal(igs[0])
			req := httptest.NewRequest("POST", "/save-integration", strings.NewReader(string(body)))
			rec := httptest.NewRecorder()
			out := core.Protect(func() string { h.SaveIntegration(rec, req); return "" })
			stored := len(pg.Rows("shovel.integrations"))
			verdict := "rejected"
			if out == "panic" || rec.Code/100 == 2 || stored > 0 {
				verdict = fmt.Sprintf("handler status %d, %d integrations stored", rec.Code, stored)
			}
			e.Add(core.Case{Impl: verdict, Spec: "rejected", Key: fmt.Sprintf("c15 handler-ig %d", hi), Nontrivial: true, Tags: []string{"handler"}})
			req2 := httptest.NewRequest("POST", "/save-source", strings.NewReader("chainID=1&ethURL=http%3A%2F%2Fx&name="+urlEscape(mark+hostile[hi])))
			req2.Header.Set("Content-Type", "application/x-www-form-urlencoded")
			rec2 := httptest.NewRecorder()
			core.Protect(func() string { h.SaveSource(rec2, req2); return "" })
			v2 := "rejected"
			if len(pg.Rows("shovel.sources")) > 0 {
				v2 = "source stored"
			}
			e.Add(core.Case{Impl: v2, Spec: "rejected", Key: fmt.Sprintf("c15 handler-src %d", hi), Nontrivial: true, Tags: []string{"handler"}})
		}
		go pool.Close()
		pg.Close()
	}
	// ---- chain-derived data with SQL metacharacters reaches the database only as data
	for i := 0; i < e.N(20, 200); i++ {
		igs := c15BaseIntegrations()
		iga := igs[0]
		for _, g := range igs {
			if g.Name == "iga" { // the declaration with filters, reference lookups and notification columns
				iga = g
			}
		}
		for k := range iga.Block {
			iga.Block[k].Filter.Ref.Table = "tb"
		}
		iga.Event.Inputs[3].Components[1].Filter.Ref.Table = "tb"
		d, err := dig.New(iga.Name, iga.Event, iga.Block, iga.Table, iga.Notification, "or")
		if err != nil {
			return err
		}
		fc := &fakeConn{refs: map[string]map[string]bool{}}
		var mu sync.Mutex
		var b eth.Block
		b.Header.Number = 5
		evil := []byte(mark + core.Pick(r, hostile) + "'; drop table ta; --")
		tx := eth.Tx{}
		tx.PrecompHash = evil
		tx.Data = evil
		tx.From = evil
		to := append(append(make([]byte, 12), evil[:8]...), make([]byte, 12)...)
		if i%2 == 0 {
			to = append(make([]byte, 31), 1) // the address iga's filter accepts: the row is written and notified
		}
		tx.Logs = eth.Logs{{Idx: 1, Address: evil, Topics: []eth.Bytes{d.Event.SignatureHash(), make([]byte, 32), to}, Data: append(make([]byte, 64), append(evil, make([]byte, 32)...)[:32]...)}}
		b.Txs = eth.Txs{tx}
		core.Protect(func() string { d.Insert(e2eCtx("src1", 7), &mu, fc, []eth.Block{b}); return "" })
		verdict := "only as data"
		for _, q := range append(fc.queries, fc.execs...) {
			if strings.Contains(q.SQL, mark) {
				verdict = "chain data in SQL text: " + trunc2(q.SQL)
			}
		}
		e.Add(core.Case{Impl: verdict, Spec: "only as data", Key: fmt.Sprintf("c15 chain %d", i), Nontrivial: true, Tags: []string{"chain-data"}})
	}
	// ---- the same for TEXT that comes from the chain: an event with string and bytes inputs, stored in
	// columns that are also notification columns (the payload of pg_notify is chain data too)
	for i := 0; i < e.N(20, 200); i++ {
		m := config.Integration{Name: "msgs", Enabled: true}
		m.Table = wpg.Table{Name: "tm", Columns: []wpg.Column{{Name: "sender", Type: "bytea"}, {Name: "body", Type: "text"}, {Name: "blob", Type: "bytea"}, {Name: "tx_input", Type: "bytea"}}}
		m.Event = dig.Event{Name: "Message", Type: "event", Inputs: []dig.Input{
			{Indexed: true, Name: "sender", Type: "address", Column: "sender"},
			{Name: "body", Type: "string", Column: "body"},
			{Name: "blob", Type: "bytes", Column: "blob"},
		}}
		m.Block = []dig.BlockData{{Name: "tx_input", Column: "tx_input"}}
		m.Notification = dig.Notification{Columns: core.Pick(r, [][]string{{"body"}, {"sender", "body"}, {"body", "blob", "tx_input"}, {"blob"}})}
		m.Sources = []config.Source{{Name: "src1", Start: 1}}
		root := config.Root{Integrations: []config.Integration{m}, Sources: []config.Source{{Name: "src1", ChainID: 7, URLs: []string{"http://127.0.0.1:1"}}}}
		if err := config.ValidateFix(&root); err != nil {
			return fmt.Errorf("c15 msgs: %w", err)
		}
		m = root.Integrations[0]
		d, err := dig.New(m.Name, m.Event, m.Block, m.Table, m.Notification, m.FilterAGG)
		if err != nil {
			return err
		}
		evil := mark + core.Pick(r, hostile) + core.Pick(r, []string{"'); drop table tm; select ('", "'; drop table tm; --", "\\'; --", "$1", "x' || pg_sleep(9) || '"})
		pad := func(b []byte) []byte { return append(b, make([]byte, (32-len(b)%32)%32)...) }
		word := func(n int) []byte { w := make([]byte, 32); w[31], w[30] = byte(n), byte(n>>8); return w }
		bodyEnc := append(word(len(evil)), pad([]byte(evil))...)
		blobEnc := append(word(len(evil)), pad([]byte(evil))...)
		data := append(append(word(64), word(64+len(bodyEnc))...), append(bodyEnc, blobEnc...)...)
		fc := &fakeConn{refs: map[string]map[string]bool{}}
		var mu sync.Mutex
		var b eth.Block
		b.Header.Number = 5
		tx := eth.Tx{}
		tx.Data = []byte(evil)
		tx.Logs = eth.Logs{{Idx: 1, Address: make([]byte, 20), Topics: []eth.Bytes{d.Event.SignatureHash(), make([]byte, 32)}, Data: data}}
		b.Txs = eth.Txs{tx}
		out := core.Protect(func() string {
			if _, err := d.Insert(e2eCtx("src1", 7), &mu, fc, []eth.Block{b}); err != nil {
				return "err"
			}
			return "ok"
		})
		verdict := "only as data"
		for _, q := range append(fc.queries, fc.execs...) {
			if strings.Contains(q.SQL, mark) || strings.Contains(q.SQL, "drop table") || strings.Contains(q.SQL, "pg_sleep") {
				verdict = "chain data in SQL text: " + trunc2(q.SQL)
			}
		}
		asArg := false
		for _, q := range fc.execs {
			for _, a := range q.Args {
				if strings.Contains(fmt.Sprint(a), mark) {
					asArg = true
				}
			}
		}
		stored := len(fc.copies) > 0 && len(fc.copies[0].Rows) == 1
		e.Add(core.Case{Impl: verdict, Spec: "only as data", Key: fmt.Sprintf("c15 chain-text %d", i), Nontrivial: stored,
			Tags:   []string{"chain-text", "insert:" + out, fmt.Sprintf("row-stored=%v", stored), fmt.Sprintf("payload-as-parameter=%v", asArg), fmt.Sprintf("notify-columns=%d", len(m.Notification.Columns))},
			Detail: map[string]any{"text_on_chain": evil, "notification_columns": m.Notification.Columns}})
	}
	return nil
}

func urlEscape(s string) string {
	var sb strings.Builder
	for _, b := range []byte(s) {
		fmt.Fprintf(&sb, "%%%02x", b)
	}
	return sb.String()
}
