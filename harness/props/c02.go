package props

import (
	"context"
	"fmt"
	"strings"
	"sync"
	"time"

	"github.com/indexsupply/shovel/dig"
	"github.com/indexsupply/shovel/jrpc2"
	"github.com/indexsupply/shovel/shovel"
	"github.com/indexsupply/shovel/shovel/config"
	"github.com/indexsupply/shovel/wpg"
	"github.com/jackc/pgx/v5/pgxpool"

	"verifharness/core"
	"verifharness/fakepg"
	"verifharness/simnode"
)

func init() {
	Registry["C02"] = runC02
	Rules["C02"] = "for every step of generated histories (growth-only and with reorgs between steps; random batch_size x concurrency): the step is first run fault-free to enumerate its I/O, then replayed from the same snapshot once for EVERY database operation (begin, each query/delete, COPY, cursor insert, both commits) x {error reply, connection drop, process death = all connections dropped and pool+tasks rebuilt} and once for every failing JSON-RPC call; after each faulted run the committed database is compared with the Lean World model (K), checked against the Spec (no row beyond the recorded position; table = projection up to the position on growth-only histories) (O), and the step is retried fault-free and must end in exactly the state of the fault-free run; plus random multi-fault sequences. non-trivial = a faulted replay that struck an operation; distinct by (history, step, fault position, kind)"
}

func runC02(e *core.Env) error {
	r := e.Rand
	rollbackRemovesAll(e, "c02")
	for s := 0; s < e.N(4, 12); s++ {
		managerAhead(e, s)
	}
	nHist := e.N(10, 120)
	for h := 0; h < nHist && !e.OverBudget(); h++ {
		rr := r.Fork()
		batch, conc := 1+rr.Intn(5), 1+rr.Intn(3)
		if h%5 == 3 {
			batch, conc = 3+rr.Intn(4), 3 // three partitions: a fault on the middle one
			batch -= batch % 3
		}
		clen := 3 + rr.Intn(3)
		if h%5 == 3 {
			clen = 8 + rr.Intn(3) // room for three full partitions
		}
		chain := transferChain(clen, uint64(1+rr.Intn(1000)))
		w, err := newWorld(e, chain)
		if err != nil {
			return err
		}
		if h%4 == 2 {
			w.client = jrpc2.New(w.node.URL()).WithMaxReads(3 + rr.Intn(4)).WithPollDuration(time.Hour)
			w.tags["caching-client"]++
		}
		var ig1 config.Integration
		switch h % 5 {
		case 1:
			ig1 = traceIG("ig1", "t1") // blocks + trace_block (h=6: with the caching client)
		case 3:
			ig1 = transferIG("ig1", "t1", nil, nil) // logs only: no parent hashes in the fetched blocks
		default:
			ig1 = transferIG("ig1", "t1", []string{"block_time"}, nil) // (h=2: with the caching client)
		}
		if h%3 == 1 {
			// the table spells out the bookkeeping columns itself (the block list does not name them): they
			// must still be filled - the reorg deletion is keyed on them
			ig1.Table.Columns = append(ig1.Table.Columns, wpg.Column{Name: "block_num", Type: "numeric"}, wpg.Column{Name: "src_name", Type: "text"}, wpg.Column{Name: "ig_name", Type: "text"})
			w.tags["table-declares-bookkeeping-columns"]++
		}
		root := config.Root{Integrations: []config.Integration{ig1}}
		if err := w.setupRoot(&root); err != nil {
			w.close()
			return err
		}
		t, err := w.addTask("t1", root.Integrations[0], "src1", 1, 0, batch, conc)
		if err != nil {
			w.close()
			return err
		}
		withReorgs := h%2 == 1
		// a CACHING client on a static chain: blocks fetched by a step that then fails stay in the
		// client's segment cache, and the retry attaches its logs to those same blocks again
		cached := h%4 == 2
		growthOnly := true
		snaps := map[string]*fakepg.DB{}
		var oracles []string
		struck := 0
		nSteps := 3 + rr.Intn(3)
		for st := 0; st < nSteps && !w.dead; st++ {
			switch {
			case withReorgs && st > 0 && rr.Chance(1, 2):
				w.reorg(1+rr.Intn(3), 1+rr.Intn(4))
				growthOnly = false
			case !cached && rr.Chance(1, 2):
				w.grow(1 + rr.Intn(3))
			}
			w.save("p", snaps)
			before0 := w.digest()
			w.step(t, noFault)
			nDB, nSrc := w.lastCounts(t)
			final0 := w.digest()
			check := func(tag string) {
				oracles = append(oracles, w.withinOracle(t, 0))
				if growthOnly {
					oracles = append(oracles, w.projOracle(t, 0))
				}
				if tag == "double" && w.digest() != before0 {
					// one of the two struck steps went through (its fault position was never reached): the
					// next step is then the FOLLOWING step, not a retry of this one; only the invariant applies
					w.tags["double-progressed"]++
					return
				}
				// retry after the fault clears: completes as if the fault had not happened
				w.step(t, noFault)
				if got := w.digest(); got != final0 {
					e.Add(core.Case{Impl: "after retry: " + got, Spec: "after retry: " + final0, Key: fmt.Sprintf("c02-retry %d %d %s", h, st, tag),
						Tags: []string{"retry-differs"}, Detail: map[string]any{"fault": tag, "batch": batch, "conc": conc, "history": w.ops}})
				} else {
					w.tags["retry-same"]++
				}
			}
			kinds := []fakepg.Fault{fakepg.ErrorReply, fakepg.DropConn, fakepg.DropAll}
			for k := 0; k < nDB && !w.dead; k++ {
				for _, kind := range kinds {
					if !e.Thorough() && kind == fakepg.DropAll && k%2 == 1 {
						continue // quick tier: process death at every other position
					}
					w.load("p", snaps)
					w.step(t, wFault{dbIndex: k, kind: kind})
					struck++
					check(fmt.Sprintf("db%d/%d", k, kind))
				}
			}
			for j := 1; j <= nSrc && !w.dead; j++ {
				w.load("p", snaps)
				w.step(t, wFault{dbIndex: -1, srcCall: j})
				struck++
				check(fmt.Sprintf("src%d", j))
			}
			// random double faults
			for m := 0; m < 2 && nDB > 1 && !w.dead; m++ {
				w.load("p", snaps)
				w.step(t, wFault{dbIndex: rr.Intn(nDB), kind: core.Pick(rr, kinds)})
				w.step(t, wFault{dbIndex: rr.Intn(nDB), kind: core.Pick(rr, kinds), srcCall: rr.Intn(nSrc + 1)})
				check("double")
			}
			w.load("p", snaps)
			w.step(t, noFault)
		}
		op, impl := w.caseOp()
		tags := []string{fmt.Sprintf("reorgs=%v", withReorgs)}
		for k, v := range w.tags {
			for j := 0; j < v; j++ {
				tags = append(tags, k)
			}
		}
		e.Add(core.Case{Op: op, Impl: impl, Oracles: oracles, Nontrivial: struck > 0, Tags: tags, Key: fmt.Sprintf("c02 %d %d", h, e.Seed),
			Detail: map[string]any{"batch": batch, "conc": conc, "reorgs": withReorgs}})
		if w.dead || w.tags["outcome:panic"] > 0 {
			e.Add(core.Case{Impl: "a step panicked or did not terminate", Spec: "every step returns", Key: fmt.Sprintf("c02-crash %d", h), Detail: map[string]any{"history": strings.Join(w.ops, "\n")}})
		}
		w.close()
	}
	return nil
}

// atomMon watches EVERY committed state of the fake PostgreSQL (after each COMMIT and each autocommitted
// statement): in each of them, every row of an integration table lies at or below the newest recorded
// position of its (source, integration) pair — "in every database state another session can observe".
type atomMon struct {
	mu    sync.Mutex
	first string
	seen  int
}

func watchAtomicity(pg *fakepg.Server) *atomMon {
	m := &atomMon{}
	num := func(v fakepg.Value) (uint64, bool) {
		var n uint64
		_, err := fmt.Sscan(fmt.Sprint(v), &n)
		return n, err == nil
	}
	pg.SetCommitHook(func(db *fakepg.DB) {
		m.mu.Lock()
		defer m.mu.Unlock()
		m.seen++
		if m.first != "" {
			return
		}
		top := map[string]uint64{}
		has := map[string]bool{}
		for _, r := range db.RowsOf("shovel.task_updates") {
			k := fmt.Sprint(r["src_name"]) + "/" + fmt.Sprint(r["ig_name"])
			if n, ok := num(r["num"]); ok {
				has[k] = true
				top[k] = max(top[k], n)
			}
		}
		for _, name := range db.TableNames() {
			if strings.HasPrefix(name, "shovel.") {
				continue
			}
			for _, r := range db.RowsOf(name) {
				bn, ok := num(r["block_num"])
				if !ok || r["src_name"] == nil || r["ig_name"] == nil {
					continue
				}
				k := fmt.Sprint(r["src_name"]) + "/" + fmt.Sprint(r["ig_name"])
				if !has[k] || bn > top[k] {
					m.first = fmt.Sprintf("committed state %d: table %s holds a row of %s for block %d, the newest recorded position of that pair is %d (recorded: %v)", m.seen, name, k, bn, top[k], has[k])
					return
				}
			}
		}
	})
	return m
}

func (m *atomMon) verdict() string {
	m.mu.Lock()
	defer m.mu.Unlock()
	if m.first != "" {
		return m.first
	}
	return "ok"
}

// managerAhead: the program's own loop (Manager.runTask) while the source falls BEHIND the recorded
// position (a shorter chain behind the same URL), with and without a database fault just then, and the
// source growing again afterwards. Every committed state is watched; at the end the table must be the
// projection of the canonical chain.
func managerAhead(e *core.Env, s int) {
	ctx := context.Background()
	verdict := func() string {
		pg := fakepg.New()
		url, _ := pg.Start()
		pool, err := pgxpool.New(ctx, url)
		if err != nil {
			return "setup: " + err.Error()
		}
		node := simnode.NewNode(transferChain(9, uint64(80+s)))
		defer func() {
			node.Close()
			go pool.Close()
			pg.Close()
		}()
		ig := transferIG("igahead", "tahead", []string{"block_time"}, nil)
		ig.Sources = []config.Source{{Name: "s1", Start: 1}}
		conf := config.Root{Sources: []config.Source{{Name: "s1", ChainID: 1, URLs: []string{node.URL() + "/nocache"}, PollDuration: 3 * time.Millisecond, BatchSize: 1 + s%3}},
			Integrations: []config.Integration{ig}}
		if err := config.ValidateFix(&conf); err != nil {
			return "setup: " + err.Error()
		}
		conn, _ := pool.Acquire(ctx)
		if err := config.Migrate(ctx, conn, conf); err != nil {
			conn.Release()
			return "setup: " + err.Error()
		}
		conn.Release()
		mon := watchAtomicity(pg)
		mgr := shovel.NewManager(ctx, pool, conf)
		go func() {
			for {
				mgr.Updates()
			}
		}()
		ec := make(chan error)
		go mgr.Run(ec)
		if err := <-ec; err != nil {
			return "first run: " + err.Error()
		}
		topIs := func(n uint64) bool {
			var top uint64
			for _, r := range pg.Rows("shovel.task_updates") {
				var k uint64
				fmt.Sscan(fmt.Sprint(r["num"]), &k)
				top = max(top, k)
			}
			return top == n
		}
		wait := func(cond func() bool) bool {
			for dl := time.Now().Add(2 * time.Second); time.Now().Before(dl); time.Sleep(5 * time.Millisecond) {
				if cond() {
					return true
				}
			}
			return false
		}
		if !wait(func() bool { return topIs(8) }) {
			return "the task did not reach the head"
		}
		// the source now answers with a SHORTER chain that forks below the recorded position
		if s%2 == 1 {
			k := 0
			pg.SetFaultHook(func(ev fakepg.Event) fakepg.Fault {
				if ev.Kind == "exec" && strings.Contains(ev.SQL, "delete") {
					k++
					if k == 2 {
						return fakepg.ErrorReply
					}
				}
				return fakepg.NoFault
			})
		}
		node.With(func(c *simnode.Chain) { c.Reorg(5, 2, simnode.GenOpts{Salt: uint64(900 + s), MakeTx: transferMakeTx}) })
		time.Sleep(120 * time.Millisecond)
		pg.SetFaultHook(nil)
		// ... and grows past the recorded position again
		node.With(func(c *simnode.Chain) { c.Grow(6, simnode.GenOpts{Salt: uint64(950 + s), MakeTx: transferMakeTx}) })
		var head uint64
		node.With(func(c *simnode.Chain) { head = uint64(len(c.Blocks) - 1) })
		reached := wait(func() bool { return topIs(head) })
		if v := mon.verdict(); v != "ok" {
			return v
		}
		if !reached {
			return fmt.Sprintf("after the source fell behind and grew again the task never reached the head %d", head)
		}
		return "ok"
	}()
	e.Add(core.Case{Impl: verdict, Spec: "ok", Key: fmt.Sprintf("c02-manager-source-behind %d", s), Nontrivial: true, Tags: []string{"manager-loop-source-behind-position", "every-committed-state-watched"}})
}

// rollbackRemovesAll: the row half of a reorg rollback (Integration.Delete, called by Task.Delete inside the
// unwinding transaction) on a table holding rows of the pair FAR above the rollback point (a large batch size,
// a long catch-up batch that ended at the head), rows of the pair below it, and rows of other pairs: every row of
// the pair at or above the point goes, nothing else does.
func rollbackRemovesAll(e *core.Env, key string) {
	ctx := e2eCtx("src1", 7)
	verdict := func() string {
		pg := fakepg.New()
		url, _ := pg.Start()
		defer pg.Close()
		pool, err := pgxpool.New(ctx, url)
		if err != nil {
			return "setup: " + err.Error()
		}
		defer func() { go pool.Close() }()
		cig := transferIG("igdel", "tdel", []string{"block_time"}, nil)
		root := config.Root{Integrations: []config.Integration{cig}}
		if err := config.ValidateFix(&root); err != nil {
			return "setup: " + err.Error()
		}
		conn, err := pool.Acquire(ctx)
		if err != nil {
			return "setup: " + err.Error()
		}
		err = config.Migrate(ctx, conn, root)
		conn.Release()
		if err != nil {
			return "setup: " + err.Error()
		}
		ci := root.Integrations[0]
		ig, err := dig.New(ci.Name, ci.Event, ci.Block, ci.Table, ci.Notification, ci.FilterAGG)
		if err != nil {
			return "setup: " + err.Error()
		}
		const n = 5000
		type rw struct {
			src, ig string
			blk     int64
		}
		var rows []rw
		for _, b := range []int64{1, n - 1, n, n + 1, n + 999, n + 1000, n + 1001, n + 2000, n + 100000} {
			rows = append(rows, rw{"src1", "igdel", b}, rw{"src2", "igdel", b}, rw{"src1", "other", b})
		}
		for i, r := range rows {
			if err := pg.InsertRow("tdel", map[string]fakepg.Value{"src_name": r.src, "ig_name": r.ig, "block_num": fakepg.Num(fmt.Sprint(r.blk)), "tx_idx": fakepg.Num("0"), "log_idx": fakepg.Num(fmt.Sprint(i)), "abi_idx": fakepg.Num("0")}); err != nil {
				return "setup: " + err.Error()
			}
		}
		if err := ig.Delete(ctx, pool, n); err != nil {
			return "Delete failed: " + err.Error()
		}
		left := map[rw]bool{}
		for _, r := range pg.Rows("tdel") {
			var b int64
			fmt.Sscan(fmt.Sprint(r["block_num"]), &b)
			left[rw{fmt.Sprint(r["src_name"]), fmt.Sprint(r["ig_name"]), b}] = true
		}
		for _, r := range rows {
			mine := r.src == "src1" && r.ig == "igdel"
			switch {
			case mine && r.blk >= n && left[r]:
				return fmt.Sprintf("rolled back to %d: a row of the pair at block %d is still there", n-1, r.blk)
			case !(mine && r.blk >= n) && !left[r]:
				return fmt.Sprintf("rolled back (%s, %s) to %d: the row of (%s, %s) at block %d is gone", "src1", "igdel", n-1, r.src, r.ig, r.blk)
			}
		}
		return "ok"
	}()
	e.Add(core.Case{Impl: verdict, Spec: "ok", Key: key + "-rollback-removes-all", Nontrivial: true, Tags: []string{"rollback-removes-every-row-above"}})
}
