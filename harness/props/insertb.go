package props

import (
	"context"
	"encoding/hex"
	"fmt"
	"math/big"
	"strings"
	"sync"

	"github.com/holiman/uint256"
	"github.com/indexsupply/shovel/dig"
	"github.com/indexsupply/shovel/eth"
	"github.com/indexsupply/shovel/shovel/config"
	"github.com/indexsupply/shovel/wpg"
	"github.com/jackc/pgx/v5"

	"verifharness/core"
)

// Whole batches through the REAL dig.Integration.Insert (one integration value, its decoder reused
// for every log of every batch) against the Lean model of Insert (Model/Insert.lean, op `insertb`: K)
// and against the per-item specifications joined over the batch (Spec/Insert.lean, op `insertbspec`: O).
// Theorems: insert_exact, insert_twice, insert_first_error, insert_batch_flat, system_table_exact.

// renderConn renders every value while COPY drains the row source, as pgx does
type renderConn struct {
	fakeConn
	rows []string
	n    int
}

func (f *renderConn) CopyFrom(ctx context.Context, table pgx.Identifier, cols []string, src pgx.CopyFromSource) (int64, error) {
	f.n++
	for src.Next() {
		vals, err := src.Values()
		if err != nil {
			return 0, err
		}
		var cs []string
		for _, c := range vals {
			cs = append(cs, renderVal(c))
		}
		f.rows = append(f.rows, strings.Join(cs, ","))
	}
	return int64(len(f.rows)), nil
}

var txModeFields = []string{"chain_id", "block_hash", "block_time", "tx_hash", "tx_signer", "tx_to", "tx_value", "tx_input", "tx_type", "tx_status",
	"tx_gas_used", "tx_gas_price", "tx_effective_gas_price", "tx_contract_address", "tx_max_priority_fee_per_gas", "tx_max_fee_per_gas", "tx_nonce"}
var traceModeFields = []string{"trace_action_call_type", "trace_action_idx", "trace_action_from", "trace_action_to", "trace_action_value"}

type ibLog struct {
	log   eth.Log
	cv    map[string]ctxVal
	vdesc string // "" = raw
	encIx int    // index into the enc ops
}
type ibTx struct {
	tx     eth.Tx
	cv     map[string]ctxVal
	logs   []*ibLog
	traces []map[string]ctxVal
}
type ibBlock struct {
	hdr eth.Header
	cv  map[string]ctxVal
	txs []*ibTx
}
type ibCase struct {
	mode    string
	ins     []*aty
	desc    string
	name    string
	selLeaf []*aty
	blocks  []*ibBlock
	g       *abiGen
}

func ctxTok(cv map[string]ctxVal, keys []string) string {
	var xs []string
	for _, k := range keys {
		if c, ok := cv[k]; ok {
			xs = append(xs, k+"="+c.enc())
		}
	}
	if len(xs) == 0 {
		return "_"
	}
	return strings.Join(xs, ";")
}

func runInsertBatches(e *core.Env) error {
	r := e.Rand.Fork()
	n := e.N(60, 900)
	var cases []*ibCase
	var encOps []string
	for i := 0; i < n; i++ {
		c := &ibCase{mode: core.Pick(r, []string{"log", "log", "log", "tx", "trace"})}
		c.g = &abiGen{r: r.Fork(), selP: 3 + r.Intn(5), maxK: 6}
		if c.mode == "log" {
			for try := 0; try < 20 && len(c.selLeaf) == 0; try++ {
				c.ins = c.g.event(3)
				c.selLeaf = nil
				for _, in := range c.ins {
					collectLeaves(in, &c.selLeaf)
				}
			}
			if len(c.selLeaf) == 0 {
				continue
			}
			c.desc = descOf(c.ins)
			c.name = core.Pick(r, []string{"Transfer", "E", "Swap"})
		} else {
			c.desc = "0"
		}
		nb := 1 + r.Intn(3)
		bnum := uint64(1000 + r.Intn(1_000_000))
		for b := 0; b < nb; b++ {
			blk0, cv0 := makeItem(r)
			ib := &ibBlock{hdr: blk0.Header, cv: map[string]ctxVal{}}
			ib.hdr.Number = eth.Uint64(bnum + uint64(b))
			ib.cv["block_num"] = ctxVal{kind: 'n', n: new(big.Int).SetUint64(bnum + uint64(b))}
			ib.cv["block_hash"] = cv0["block_hash"]
			ib.cv["block_time"] = cv0["block_time"]
			for t, nt := 0, r.Intn(4); t < nt; t++ {
				blkT, cvT := makeItem(r)
				it := &ibTx{tx: blkT.Txs[0], cv: map[string]ctxVal{}}
				it.tx.Idx = eth.Uint64(t * 3)
				cvT["tx_idx"] = ctxVal{kind: 'n', n: big.NewInt(int64(t * 3))}
				for k, v := range cvT {
					if strings.HasPrefix(k, "tx_") {
						it.cv[k] = v
					}
				}
				switch c.mode {
				case "log":
					for l, nl := 0, r.Intn(4); l < nl; l++ {
						il := &ibLog{cv: map[string]ctxVal{}}
						il.log.Idx = eth.Uint64(l + 10*t)
						il.log.Address = r.Bytes(20)
						il.cv["log_idx"] = ctxVal{kind: 'n', n: big.NewInt(int64(l + 10*t))}
						il.cv["log_addr"] = ctxVal{kind: 'x', b: il.log.Address}
						if r.Chance(2, 3) {
							il.vdesc = c.g.dataValue(c.ins)
							il.encIx = len(encOps)
							encOps = append(encOps, "enc "+c.desc+" "+il.vdesc)
						}
						it.logs = append(it.logs, il)
					}
				case "trace":
					for a, na := 0, r.Intn(4); a < na; a++ {
						v := new(big.Int).SetBytes(r.Bytes(1 + r.Intn(12)))
						cv := map[string]ctxVal{
							"trace_action_idx":       {kind: 'n', n: big.NewInt(int64(a))},
							"trace_action_call_type": {kind: 's', s: core.Pick(r, []string{"call", "delegatecall", "create", ""})},
							"trace_action_from":      {kind: 'x', b: r.Bytes(20)},
							"trace_action_to":        {kind: 'x', b: r.Bytes(20)},
							"trace_action_value":     {kind: 'u', n: v},
						}
						ta := eth.TraceAction{Idx: uint64(a), CallType: cv["trace_action_call_type"].s, From: cv["trace_action_from"].b, To: cv["trace_action_to"].b}
						ta.Value.SetFromBig(v)
						it.tx.TraceActions = append(it.tx.TraceActions, ta)
						it.traces = append(it.traces, cv)
					}
				}
				ib.txs = append(ib.txs, it)
			}
			c.blocks = append(c.blocks, ib)
		}
		cases = append(cases, c)
	}
	encOut, err := core.RunDriver(e.Driver, encOps)
	if err != nil {
		return err
	}
	for ci, c := range cases {
		var ev *dig.Event
		var sighash []byte
		var cols []wpg.Column
		if c.mode == "log" {
			v := eventOf(c.name, c.ins)
			ev = &v
			sighash = v.SignatureHash()
			for _, lf := range c.selLeaf {
				cols = append(cols, wpg.Column{Name: lf.col, Type: "bytea"})
			}
		}
		// ---- fields
		pool := txModeFields
		switch c.mode {
		case "log":
			pool = logModeFields
		case "trace":
			pool = append(append([]string{}, txModeFields...), traceModeFields...)
		}
		var fields []string
		for _, f := range pool {
			if r.Chance(1, 4) {
				fields = append(fields, f)
			}
		}
		if c.mode == "trace" {
			hasT := false
			for _, f := range fields {
				hasT = hasT || isTraceField(f)
			}
			if !hasT {
				fields = append(fields, core.Pick(r, traceModeFields))
			}
		}
		if c.mode == "tx" && len(fields) == 0 {
			fields = []string{"tx_hash"}
		}
		for i := len(fields) - 1; i > 0; i-- {
			j := r.Intn(i + 1)
			fields[i], fields[j] = fields[j], fields[i]
		}
		// ---- the logs: topics and data
		ok := true
		for _, b := range c.blocks {
			for _, t := range b.txs {
				for _, l := range t.logs {
					if l.vdesc != "" {
						parts := strings.SplitN(encOut[l.encIx], " ", 4)
						if parts[0] != "ok" || len(parts) < 4 || parts[2] != "dom" {
							ok = false
							continue
						}
						if parts[1] != "-" {
							l.log.Data, _ = hex.DecodeString(parts[1])
						}
						l.log.Topics = append(l.log.Topics, sighash)
						for _, in := range c.ins {
							if in.indexed {
								w := r.Bytes(32)
								if in.name == "address" {
									w = append(make([]byte, 12), r.Bytes(20)...)
								}
								l.log.Topics = append(l.log.Topics, w)
							}
						}
						if len(l.log.Data) == 0 {
							l.vdesc = "" // an empty encoding: the no-data path, raw empty payload
						}
					} else {
						// a log of another event: any topics but the declared gate, any data
						nt := r.Intn(5)
						for k := 0; k < nt; k++ {
							l.log.Topics = append(l.log.Topics, r.Bytes(32))
						}
						if r.Chance(1, 3) && len(sighash) > 0 {
							// the declared signature with a DIFFERENT number of topics
							nIdx := 0
							for _, in := range c.ins {
								if in.indexed {
									nIdx++
								}
							}
							l.log.Topics = []eth.Bytes{sighash}
							for k := 0; k < nIdx+1+r.Intn(2); k++ {
								l.log.Topics = append(l.log.Topics, r.Bytes(32))
							}
							if len(l.log.Topics) > 4 {
								l.log.Topics = l.log.Topics[:1]
								if nIdx == 0 {
									l.log.Topics = nil
								}
							}
						}
						l.log.Data = r.Bytes(r.Intn(70))
					}
				}
			}
		}
		if !ok {
			continue
		}
		// ---- one filter on an identity field, with an operand taken from the batch
		agg := core.Pick(r, []string{"", "and", "or"})
		bfl := map[string]gfilter{}
		if r.Chance(1, 2) && len(c.blocks) > 0 {
			f := core.Pick(r, []string{"block_num", "tx_idx"})
			var val *big.Int
			b := core.Pick(r, c.blocks)
			val = b.cv["block_num"].n
			if f == "tx_idx" {
				val = big.NewInt(int64(3 * r.Intn(3)))
			}
			bfl[f] = genFilter(r, 'n', val, false)
		}
		renamed := 0
		ig, cig, err := buildIG("ig1", "t1", fields, ev, cols, agg, func(ci *config.Integration) {
			// columns need not be named like the field they hold (trace columns keep their prefix: the
			// indexing mode is chosen by it)
			for i := range ci.Block {
				if !isTraceField(ci.Block[i].Name) && r.Chance(1, 2) {
					old := ci.Block[i].Column
					ci.Block[i].Column = "c_" + old
					for j := range ci.Table.Columns {
						if ci.Table.Columns[j].Name == old {
							ci.Table.Columns[j].Name = "c_" + old
						}
					}
					renamed++
				}
			}
			for f, g := range bfl {
				if g.active {
					ci.Block = append(ci.Block, dig.BlockData{Name: f, Column: f, Filter: g.dig()})
					ci.Table.Columns = append(ci.Table.Columns, wpg.Column{Name: f, Type: fieldType(f)})
				}
			}
		})
		if err != nil {
			e.Add(core.Case{Impl: "config-rejected: " + err.Error(), Spec: "accepted", Key: fmt.Sprintf("insertb-cfg %d %s", ci, c.desc), Tags: []string{"insertb", "config-rejected"}})
			continue
		}
		// ---- tokens
		var bsp, used []string
		for _, bd := range cig.Block {
			g := gfilter{}
			if len(bd.Filter.Arg) > 0 || bd.Filter.Ref.Integration != "" {
				g = gfilter{active: true, op: bd.Filter.Op, args: bd.Filter.Arg}
			}
			bsp = append(bsp, bd.Name+"="+g.enc())
			used = append(used, bd.Name)
		}
		iflTok := "_"
		if len(c.selLeaf) > 0 {
			var xs []string
			for range c.selLeaf {
				xs = append(xs, gfilter{}.enc())
			}
			iflTok = strings.Join(xs, ";")
		}
		aggTok := cig.FilterAGG
		if aggTok == "" {
			aggTok = "-"
		}
		shTok := "-"
		if len(sighash) > 0 {
			shTok = core.Hex(sighash)
		}
		base := map[string]ctxVal{"src_name": {kind: 's', s: "src1"}, "ig_name": {kind: 's', s: "ig1"}, "chain_id": {kind: 'n', n: big.NewInt(7)}}
		var blocks []eth.Block
		var btoks []string
		nItems, nDeclared := 0, 0
		for _, b := range c.blocks {
			eb := eth.Block{Header: b.hdr}
			var ttoks []string
			for _, t := range b.txs {
				tx := t.tx
				var ltoks, atoks []string
				for _, l := range t.logs {
					tx.Logs = append(tx.Logs, l.log)
					var tt []string
					for _, tp := range l.log.Topics {
						tt = append(tt, core.Hex(tp))
					}
					top := "_"
					if len(tt) > 0 {
						top = strings.Join(tt, ",")
					}
					pl := "R@" + core.Hex(l.log.Data)
					if l.vdesc != "" {
						pl = "V@" + l.vdesc
						nDeclared++
					}
					ltoks = append(ltoks, fmt.Sprintf("%s%%%s%%%s%%%d", ctxTok(l.cv, used), top, pl, cap(l.log.Data)))
					nItems++
				}
				for _, a := range t.traces {
					atoks = append(atoks, ctxTok(a, used))
					nItems++
				}
				if c.mode == "tx" {
					nItems++
				}
				lt, at := "_", "_"
				if len(ltoks) > 0 {
					lt = strings.Join(ltoks, "+")
				}
				if len(atoks) > 0 {
					at = strings.Join(atoks, "+")
				}
				ttoks = append(ttoks, ctxTok(t.cv, used)+"&"+lt+"&"+at)
				eb.Txs = append(eb.Txs, tx)
			}
			tt := "_"
			if len(ttoks) > 0 {
				tt = strings.Join(ttoks, "^")
			}
			btoks = append(btoks, ctxTok(b.cv, used)+"~"+tt)
			blocks = append(blocks, eb)
		}
		batchTok := strings.Join(btoks, "!")
		if strings.ContainsAny(batchTok, " \t\n") {
			continue
		}
		// ---- the real Insert, three times on the SAME integration value (its decoder is reused)
		var mu sync.Mutex
		runIt := func() string {
			fc := &renderConn{}
			return core.Protect(func() string {
				if _, err := ig.Insert(e2eCtx("src1", 7), &mu, fc, blocks); err != nil {
					return "err"
				}
				if fc.n != 1 {
					return fmt.Sprintf("copies=%d", fc.n)
				}
				if len(fc.rows) == 0 {
					return "ok"
				}
				return "ok " + strings.Join(fc.rows, ";")
			})
		}
		for rep := 0; rep < 3; rep++ {
			impl := runIt()
			declToks := fmt.Sprintf("%s %s %s %s %s %s _ %s", c.mode, aggTok, c.desc, iflTok, strings.Join(bsp, ";"), shTok, ctxTok(base, []string{"src_name", "ig_name", "chain_id"}))
			cs := core.Case{Op: fmt.Sprintf("insertb %s %d %s", declToks, rep, batchTok), Impl: impl,
				Nontrivial: strings.HasPrefix(impl, "ok ") && nItems > 1,
				Tags:       []string{"insertb", "mode=" + c.mode, fmt.Sprintf("blocks=%d", len(blocks)), fmt.Sprintf("items=%d", min(nItems, 6)), fmt.Sprintf("declared-logs=%d", min(nDeclared, 4)), "impl:" + strings.SplitN(impl, " ", 2)[0], fmt.Sprintf("decoder-reuse=%d", rep), fmt.Sprintf("renamed-columns=%v", renamed > 0)},
				Detail:     map[string]any{"block": cig.Block, "agg": cig.FilterAGG, "mode": c.mode, "desc": c.desc}}
			if rep == 0 {
				cs.Oracle = fmt.Sprintf("insertbspec %s %s %s", declToks, batchTok, quoteImpl(impl))
			}
			e.Add(cs)
		}
	}
	return nil
}

var _ = uint256.NewInt
