package props

import (
	"encoding/base64"
	"encoding/binary"
	"regexp"

	"encoding/json"
	"filippo.io/age"
	"fmt"
	"io"
	"net"
	"net/http"
	"net/http/httptest"
	"net/url"
	"os"
	"sort"
	"strings"
	"time"

	"github.com/indexsupply/shovel/shovel/config"
	"github.com/indexsupply/shovel/shovel/web"
	"github.com/indexsupply/shovel/wos"

	"verifharness/core"
)

func init() {
	Registry["C19"] = runC19
	Rules["C19"] = "the REAL web.Handler (Authn wrapper, Login) via httptest, exhaustively over: both authentication switches x configured / generated password x remote addresses (IPv4 and IPv6 loopback, v4-mapped loopback, private, public, no port, garbage) x cookie states (none, garbage, minted by this handler, minted by a second handler = another process) x methods, and login attempts (right / wrong / empty / near-miss password, GET, POST, PUT), plus random request histories on one handler; each response compared with the Lean model (K) and with the Spec (served iff allowed, redirect to /login otherwise and the protected handler did not run; a wrong password never yields a cookie) (O). non-trivial = all; distinct by (switches, address, cookie, method)"
}

func runC19(e *core.Env) error {
	r := e.Rand
	addrs := []string{"127.0.0.1:5000", "127.1.2.3:80", "[::1]:443", "[::ffff:127.0.0.1]:80", "10.0.0.5:1234", "192.168.1.1:80", "8.8.8.8:53", "[2001:db8::1]:80", "127.0.0.1", "localhost:80", "garbage", ""}
	// more peers: addresses that LOOK like loopback in some of their bytes or spellings, and generated ones
	addrs = append(addrs, "[2001:db8:aa:bb::7f00:1]:40000", "[::7f00:1]:80", "[::127.0.0.1]:80", "[fe80::1%eth0]:80", "[::1%lo]:80", "0.0.0.0:1",
		"126.255.255.255:9", "128.0.0.1:9", "[::ffff:7f00:1]:80", "[::ffff:128.0.0.1]:80", "[64:ff9b::7f00:1]:80", "[7f00::1]:80", "[::1:0:0:1]:80", "127.0.0.1:x", "[::1]")
	for i := 0; i < e.N(24, 240); i++ {
		ip := make(net.IP, 16)
		for k := range ip {
			ip[k] = byte(r.Intn(256))
		}
		switch r.Intn(6) {
		case 0: // IPv4, first octet around 127
			ip = net.IPv4(byte(126+r.Intn(3)), ip[1], ip[2], ip[3])
		case 1: // IPv4 anywhere
			ip = net.IPv4(ip[0], ip[1], ip[2], ip[3])
		case 2: // IPv6 whose low 32 bits read like an IPv4 loopback address
			ip[12] = 0x7f
		case 3: // mostly zero IPv6
			for k := 0; k < 15; k++ {
				if r.Intn(4) > 0 {
					ip[k] = 0
				}
			}
			ip[15] = byte(r.Intn(3))
		case 4: // v4-mapped
			copy(ip, net.IPv4(byte(126+r.Intn(3)), ip[13], ip[14], ip[15]).To16())
		}
		addrs = append(addrs, net.JoinHostPort(ip.String(), fmt.Sprint(1+r.Intn(65000))))
	}
	for _, disable := range []bool{false, true} {
		for _, enforceLB := range []bool{false, true} {
			for _, configured := range []bool{false, true} {
				conf := &config.Root{}
				conf.Dashboard.DisableAuthn = disable
				conf.Dashboard.EnableLoopbackAuthn = enforceLB
				if configured {
					conf.Dashboard.RootPassword = wos.EnvString("s3cret-" + fmt.Sprint(r.Intn(1000)))
				}
				h := web.New(nil, conf, nil)
				other := web.New(nil, conf, nil) // another process: another cookie key
				pw := h.VerifPassword()
				loginWith := func(hh *web.Handler, method, password, remote string) *httptest.ResponseRecorder {
					form := url.Values{"password": {password}}
					req := httptest.NewRequest(method, "/login", strings.NewReader(form.Encode()))
					req.Header.Set("Content-Type", "application/x-www-form-urlencoded")
					req.RemoteAddr = remote
					rec := httptest.NewRecorder()
					hh.Login(rec, req)
					return rec
				}
				cookieOf := func(rec *httptest.ResponseRecorder) string {
					for _, c := range rec.Result().Cookies() {
						return c.Name + "=" + c.Value
					}
					return ""
				}
				mine := cookieOf(loginWith(h, "POST", pw, "8.8.8.8:1"))
				theirs := cookieOf(loginWith(other, "POST", other.VerifPassword(), "8.8.8.8:1"))
				if mine == "" || theirs == "" {
					e.Add(core.Case{Impl: "login with the right password issued no cookie", Spec: "cookie issued", Key: fmt.Sprintf("c19-login-ok %v %v %v", disable, enforceLB, configured)})
					continue
				}
				cookies := map[string]string{"none": "", "garbage": "session=Zm9vYmFy", "mine": mine, "other": theirs}
				b2 := func(b bool) string {
					if b {
						return "1"
					}
					return "0"
				}
				for _, addr := range addrs {
					// independent loopback classification (package net is trusted)
					lb := false
					if host, _, err := net.SplitHostPort(addr); err == nil {
						lb = net.ParseIP(host).IsLoopback()
					}
					for _, ck := range []string{"none", "garbage", "mine", "other"} {
						for _, method := range []string{"GET", "POST"} {
							ran := false
							prot := h.Authn(func(w http.ResponseWriter, r *http.Request) { ran = true; w.WriteHeader(200) })
							req := httptest.NewRequest(method, "/save-integration", nil)
							req.RemoteAddr = addr
							if cookies[ck] != "" {
								req.Header.Set("Cookie", cookies[ck])
							}
							rec := httptest.NewRecorder()
							impl := core.Protect(func() string {
								prot.ServeHTTP(rec, req)
								switch {
								case ran && rec.Code == 200:
									return "served"
								case !ran && rec.Code == http.StatusSeeOther && rec.Header().Get("Location") == "/login":
									return "redirect-login"
								}
								return fmt.Sprintf("status=%d ran=%v location=%q", rec.Code, ran, rec.Header().Get("Location"))
							})
							allowed := disable || (!enforceLB && lb) || ck == "mine"
							spec := "redirect-login"
							if allowed {
								spec = "served"
							}
							e.Add(core.Case{Op: fmt.Sprintf("authn %s %s %s %s", b2(disable), b2(enforceLB), b2(lb), ck), Impl: impl, Spec: spec, Nontrivial: true,
								Key:  fmt.Sprintf("authn %v %v %v %s %s %s", disable, enforceLB, configured, addr, ck, method),
								Tags: []string{"authn", "cookie=" + ck, fmt.Sprintf("loopback=%v", lb), "impl:" + impl}})
						}
					}
				}
				// login attempts
				for _, method := range []string{"GET", "POST", "PUT"} {
					for _, guess := range []string{pw, pw + "x", "", strings.ToUpper(pw), pw[:len(pw)-1], "' or 1=1 --"} {
						rec := loginWith(h, method, guess, core.Pick(r, addrs[:8]))
						ok := guess == pw
						impl := "?"
						switch {
						case method == "GET" && rec.Code == 200:
							impl = "page"
						case rec.Code == http.StatusSeeOther && cookieOf(rec) != "":
							impl = "issued"
						case rec.Code == http.StatusUnauthorized && cookieOf(rec) == "":
							impl = "unauthorized"
						case rec.Code == http.StatusMethodNotAllowed && cookieOf(rec) == "":
							impl = "bad-method"
						default:
							impl = fmt.Sprintf("status=%d cookie=%v", rec.Code, cookieOf(rec) != "")
						}
						spec := ""
						if method == "POST" && !ok {
							spec = "unauthorized"
						}
						if method == "POST" && ok {
							spec = "issued"
						}
						e.Add(core.Case{Op: fmt.Sprintf("login %s %s", method, b2(ok)), Impl: impl, Spec: spec, Nontrivial: true,
							Key: fmt.Sprintf("login %v %v %v %s %q", disable, enforceLB, configured, method, guess), Tags: []string{"login", "impl:" + impl}})
						// a cookie from a failed attempt must not exist; one from a successful attempt must work
						if impl == "issued" {
							ran := false
							prot := h.Authn(func(w http.ResponseWriter, r *http.Request) { ran = true })
							req := httptest.NewRequest("GET", "/add-source", nil)
							req.RemoteAddr = "8.8.8.8:1"
							req.Header.Set("Cookie", cookieOf(rec))
							prot.ServeHTTP(httptest.NewRecorder(), req)
							v := "issued session accepted"
							if !ran {
								v = "issued session not accepted"
							}
							e.Add(core.Case{Impl: v, Spec: "issued session accepted", Key: fmt.Sprintf("login-use %v %v %v", disable, enforceLB, configured), Tags: []string{"session-roundtrip"}})
						}
					}
				}
			}
		}
	}
	// ---- the switches as they arrive from the configuration FILE (JSON, the way cmd/shovel reads it)
	// Besides the JSON booleans: the spellings a configuration written by hand, rendered from YAML or filled
	// from an environment variable comes in. Such a file may be REJECTED; if it is accepted the switch
	// means what the spelling says (never "off" for a spelling of true)
	os.Setenv("C19_SWITCH_ON", "True")
	truthy := map[string]bool{"true": true, `"true"`: true, `"True"`: true, `"TRUE"`: true, `"1"`: true, `"t"`: true, "1": true, `"$C19_SWITCH_ON"`: true}
	plain := map[string]bool{"absent": true, "true": true, "false": true}
	spellings := []string{"absent", "true", "false", `"true"`, `"True"`, `"TRUE"`, `"1"`, `"t"`, "1", `"false"`, `"False"`, `"0"`, `"$C19_SWITCH_ON"`}
	for _, dv := range spellings {
		for _, lv := range spellings {
			if !plain[dv] && !plain[lv] {
				continue
			}
			var parts []string
			if dv != "absent" {
				parts = append(parts, `"disable_authn": `+dv)
			}
			if lv != "absent" {
				parts = append(parts, `"enable_loopback_authn": `+lv)
			}
			parts = append(parts, `"root_password": "pw-from-file"`)
			doc := `{"pg_url": "postgres:///x", "dashboard": {` + strings.Join(parts, ", ") + `}, "eth_sources": [], "integrations": []}`
			var conf config.Root
			verdict := "ok"
			if err := json.Unmarshal([]byte(doc), &conf); err != nil {
				verdict = "configuration rejected: " + err.Error()
				if !plain[dv] || !plain[lv] {
					verdict = "ok" // a spelling the decoder does not take: refused, which is safe
				}
			} else if err := config.ValidateFix(&conf); err != nil {
				verdict = "configuration rejected: " + err.Error()
			} else {
				h := web.New(nil, &conf, nil)
				for _, tc := range []struct {
					remote string
					lb     bool
				}{{"203.0.113.7:40000", false}, {"127.0.0.1:40000", true}} {
					ran := false
					prot := h.Authn(func(w http.ResponseWriter, r *http.Request) { ran = true; w.WriteHeader(200) })
					req := httptest.NewRequest("POST", "/save-source", nil)
					req.RemoteAddr = tc.remote
					prot.ServeHTTP(httptest.NewRecorder(), req)
					want := truthy[dv] || (tc.lb && !truthy[lv])
					if ran != want && verdict == "ok" {
						verdict = fmt.Sprintf("file says disable_authn=%s enable_loopback_authn=%s: request without a session from %s ran the protected handler=%v, want %v", dv, lv, tc.remote, ran, want)
					}
				}
			}
			e.Add(core.Case{Impl: verdict, Spec: "ok", Key: "c19-file " + dv + " " + lv, Nontrivial: true, Tags: []string{"switches-from-json-file"}, Detail: map[string]any{"config": doc}})
		}
	}
	// ---- a client that never presents the password but keeps every cookie it is handed (redirects, login
	// page, failed logins) and retries: never served
	for _, enforceLB := range []bool{false, true} {
		conf := &config.Root{}
		conf.Dashboard.EnableLoopbackAuthn = enforceLB
		h := web.New(nil, conf, nil)
		jar := map[string]string{}
		keep := func(rec *httptest.ResponseRecorder) {
			for _, c := range rec.Result().Cookies() {
				if c.MaxAge < 0 || c.Value == "" {
					delete(jar, c.Name)
				} else {
					jar[c.Name] = c.Value
				}
			}
		}
		hdr := func() string {
			var cs []string
			for k, v := range jar {
				cs = append(cs, k+"="+v)
			}
			sort.Strings(cs)
			return strings.Join(cs, "; ")
		}
		verdict := "ok"
		remote := "198.51.100.9:5555"
		steps := []string{"protected", "protected", "login-page", "protected", "wrong-password", "protected", "empty-password", "protected", "protected"}
		for i, st := range steps {
			rec := httptest.NewRecorder()
			var req *http.Request
			switch st {
			case "protected":
				ran := false
				prot := h.Authn(func(w http.ResponseWriter, r *http.Request) { ran = true; w.WriteHeader(200) })
				req = httptest.NewRequest(core.Pick(r, []string{"GET", "POST"}), core.Pick(r, []string{"/save-source", "/save-integration", "/add-source", "/add-integration", "/"}), nil)
				req.RemoteAddr = remote
				if c := hdr(); c != "" {
					req.Header.Set("Cookie", c)
				}
				prot.ServeHTTP(rec, req)
				if ran && verdict == "ok" {
					verdict = fmt.Sprintf("step %d: a client that never presented the password ran a protected handler (cookies it was handed: %d)", i, len(jar))
				}
			case "login-page":
				req = httptest.NewRequest("GET", "/login", nil)
				req.RemoteAddr = remote
				if c := hdr(); c != "" {
					req.Header.Set("Cookie", c)
				}
				h.Login(rec, req)
			default:
				pwGuess := "not-the-password"
				if st == "empty-password" {
					pwGuess = ""
				}
				form := url.Values{"password": {pwGuess}}
				req = httptest.NewRequest("POST", "/login", strings.NewReader(form.Encode()))
				req.Header.Set("Content-Type", "application/x-www-form-urlencoded")
				req.RemoteAddr = remote
				if c := hdr(); c != "" {
					req.Header.Set("Cookie", c)
				}
				h.Login(rec, req)
			}
			keep(rec)
		}
		e.Add(core.Case{Impl: verdict, Spec: "ok", Key: fmt.Sprintf("c19-jar %v", enforceLB), Nontrivial: true, Tags: []string{"cookie-jar-without-password"}})
	}
	return c19Binary(e)
}

// c19Binary: the REAL shovel process (main()'s own route table and middleware included), its dashboard
// reached over real TCP connections from loopback and, where the machine has one, from a non-loopback
// address; with and without headers by which a client may CLAIM another address.
func c19Binary(e *core.Env) error {
	defer removeShovelBinary()
	peers := localPeers()
	claims := []struct{ name, header, value string }{{"none", "", ""}, {"xff-v4", "X-Forwarded-For", "127.0.0.1"}, {"xff-v6", "X-Forwarded-For", "::1"},
		{"xff-list", "X-Forwarded-For", "127.0.0.1, 203.0.113.9"}, {"x-real-ip", "X-Real-IP", "127.0.0.1"}, {"forwarded", "Forwarded", "for=127.0.0.1"}}
	b2 := func(b bool) string {
		if b {
			return "1"
		}
		return "0"
	}
	for _, disable := range []bool{false, true} {
		for _, enforceLB := range []bool{false, true} {
			doc := func(pgurl string) string {
				return fmt.Sprintf(`{"pg_url": %q, "dashboard": {"root_password": "pw-e2e", "disable_authn": %v, "enable_loopback_authn": %v}, "eth_sources": [], "integrations": []}`, pgurl, disable, enforceLB)
			}
			p, err := startShovel(e, doc)
			if err != nil {
				e.Add(core.Case{Impl: "the shovel binary did not start: " + err.Error(), Spec: "started", Key: fmt.Sprintf("c19-bin-start %v %v", disable, enforceLB), Tags: []string{"binary"}})
				continue
			}
			cl := &http.Client{Timeout: 5 * time.Second, CheckRedirect: func(*http.Request, []*http.Request) error { return http.ErrUseLastResponse }}
			// a session, obtained with the password
			session := ""
			if resp, err := cl.PostForm(fmt.Sprintf("http://127.0.0.1:%d/login", p.port), url.Values{"password": {"pw-e2e"}}); err == nil {
				for _, c := range resp.Cookies() {
					session = c.Name + "=" + c.Value
				}
				resp.Body.Close()
			}
			if session == "" {
				e.Add(core.Case{Impl: "login with the configured password issued no cookie", Spec: "cookie issued", Key: fmt.Sprintf("c19-bin-login %v %v", disable, enforceLB), Tags: []string{"binary"}})
			}
			if !disable && enforceLB {
				// look-alike paths: no spelling of a protected route reaches its handler without a session.
				// An unauthenticated request may be redirected, refused, or given what the public catch-all
				// page gives for any unknown path — never anything else
				get := func(method, path string) (int, string, string) {
					req, _ := http.NewRequest(method, fmt.Sprintf("http://127.0.0.1:%d%s", p.port, path), strings.NewReader("{"))
					resp, err := cl.Do(req)
					if err != nil {
						return 0, "", ""
					}
					defer resp.Body.Close()
					b, _ := io.ReadAll(resp.Body)
					return resp.StatusCode, resp.Header.Get("Location"), string(b)
				}
				_, _, indexBody := get("GET", "/no-such-page")
				for _, route := range []string{"/add-source", "/save-source", "/add-integration", "/save-integration", "/task-updates"} {
					for _, v := range []string{route + "/", route + "//", "/" + route, route + "/x", "/x/.." + route, strings.ToUpper(route), route + "%2f", route + "/?a=1", "/." + route, route + "/index.html"} {
						for _, method := range []string{"GET", "POST"} {
							code, loc, body := get(method, v)
							impl := "not-served"
							switch {
							case code == 0 || code/100 == 3 || code == 404 || code == 405 || code == 400:
							case body == indexBody:
							default:
								impl = fmt.Sprintf("status %d, %d bytes that are not the public page (Location %q)", code, len(body), loc)
							}
							e.Add(core.Case{Impl: impl, Spec: "not-served", Key: fmt.Sprintf("authn-bin-path %s %s", method, v), Nontrivial: true,
								Tags: []string{"binary", "look-alike-path"}, Detail: map[string]any{"path": v, "method": method, "status": code}})
						}
					}
				}
			}
			if !disable && enforceLB {
				// key harvest: whatever the OPEN endpoints say (status line, headers, body — also when rate limited or
				// failing) is searched for either half of an age key pair; a half found is used to mint a cookie,
				// and the minted cookie is presented to a protected route
				var said strings.Builder
				for _, path := range []string{"/", "/diag", "/diag", "/metrics", "/login", "/no-such-page", "/debug/pprof/", "/debug/pprof/cmdline"} {
					for _, method := range []string{"GET", "POST", "HEAD"} {
						req, _ := http.NewRequest(method, fmt.Sprintf("http://127.0.0.1:%d%s", p.port, path), nil)
						resp, err := cl.Do(req)
						if err != nil {
							continue
						}
						resp.Header.Write(&said)
						b, _ := io.ReadAll(io.LimitReader(resp.Body, 4<<20))
						resp.Body.Close()
						said.Write(b)
						said.WriteString("\n")
					}
				}
				impl := "no key material in any open answer"
				var minted []string
				for _, m := range regexp.MustCompile(`age1[0-9a-z]{40,}|AGE-SECRET-KEY-1[0-9A-Z]{40,}`).FindAllString(said.String(), -1) {
					if tok := mintCookie(m); tok != "" {
						minted = append(minted, tok)
						impl = "an open endpoint disclosed " + m[:12] + "…"
					}
				}
				for _, tok := range minted {
					req, _ := http.NewRequest("GET", fmt.Sprintf("http://127.0.0.1:%d/add-source", p.port), nil)
					req.Header.Set("Cookie", "session="+tok)
					if resp, err := cl.Do(req); err == nil {
						if !(resp.StatusCode == http.StatusSeeOther && resp.Header.Get("Location") == "/login") {
							impl = fmt.Sprintf("a cookie minted from key material an open endpoint disclosed was accepted: GET /add-source answered %d to a client that never presented the password", resp.StatusCode)
						}
						resp.Body.Close()
					}
				}
				e.Add(core.Case{Impl: impl, Spec: "no key material in any open answer", Key: "authn-bin-key-harvest", Nontrivial: true,
					Tags: []string{"binary", "key-harvest"}, Detail: map[string]any{"bytes_searched": said.Len()}})
			}
			for _, peer := range peers {
				lb := net.ParseIP(peer).IsLoopback()
				reach := false
				for _, claim := range claims {
					for _, ck := range []string{"none", "mine", "garbage"} {
						for _, route := range []struct{ method, path string }{{"GET", "/add-source"}, {"POST", "/save-integration"}, {"GET", "/add-integration"}} {
							req, _ := http.NewRequest(route.method, "http://"+hostPort(peer, p.port)+route.path, strings.NewReader("{"))
							if claim.header != "" {
								req.Header.Set(claim.header, claim.value)
							}
							switch ck {
							case "mine":
								req.Header.Set("Cookie", session)
							case "garbage":
								req.Header.Set("Cookie", "session=Zm9vYmFy")
							}
							resp, err := cl.Do(req)
							if err != nil {
								continue // this address cannot be reached here
							}
							reach = true
							impl := "served"
							if resp.StatusCode == http.StatusSeeOther && resp.Header.Get("Location") == "/login" {
								impl = "redirect-login"
							}
							resp.Body.Close()
							allowed := disable || (!enforceLB && lb) || (ck == "mine" && session != "")
							spec := "redirect-login"
							if allowed {
								spec = "served"
							}
							e.Add(core.Case{Op: fmt.Sprintf("authn %s %s %s %s", b2(disable), b2(enforceLB), b2(lb), ck), Impl: impl, Spec: spec, Nontrivial: true,
								Key:    fmt.Sprintf("authn-bin %v %v %s %s %s %s", disable, enforceLB, peer, claim.name, ck, route.path),
								Tags:   []string{"binary", "claim=" + claim.name, fmt.Sprintf("peer-loopback=%v", lb), "cookie=" + ck, "impl:" + impl},
								Detail: map[string]any{"peer": peer, "claimed_by_header": claim.header + ": " + claim.value, "route": route.method + " " + route.path}})
						}
					}
				}
				e.Add(core.Case{Impl: "ok", Key: fmt.Sprintf("c19-bin-peer %s %v", peer, reach), Tags: []string{fmt.Sprintf("peer-reachable=%v", reach), fmt.Sprintf("peer-loopback=%v", lb)}})
			}
			p.stop()
		}
	}
	return nil
}

// mintCookie: a session cookie value encrypted to the given age key half ("" when it is not one)
func mintCookie(key string) string {
	var rcp age.Recipient
	if strings.HasPrefix(key, "AGE-SECRET-KEY-1") {
		id, err := age.ParseX25519Identity(key)
		if err != nil {
			return ""
		}
		rcp = id.Recipient()
	} else {
		r, err := age.ParseX25519Recipient(key)
		if err != nil {
			return ""
		}
		rcp = r
	}
	out := &strings.Builder{}
	be := base64.NewEncoder(base64.URLEncoding, out)
	enc, err := age.Encrypt(be, rcp)
	if err != nil {
		return ""
	}
	binary.Write(enc, binary.BigEndian, time.Now().Unix()+86400)
	enc.Write([]byte("{}\n"))
	if enc.Close() != nil || be.Close() != nil {
		return ""
	}
	return out.String()
}
