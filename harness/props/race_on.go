//go:build race

package props

const raceEnabled = true
