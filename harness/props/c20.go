package props

import (
	"context"
	"encoding/json"
	"fmt"
	"github.com/indexsupply/shovel/shovel/web"
	"io"
	"net/http"
	"net/http/httptest"
	neturl "net/url"
	"sort"
	"strings"
	"sync"
	"time"

	"github.com/indexsupply/shovel/shovel"
	"github.com/indexsupply/shovel/shovel/config"
	"github.com/jackc/pgx/v5/pgxpool"

	"verifharness/core"
	"verifharness/fakepg"
	"verifharness/simnode"
)

func init() {
	Registry["C20"] = runC20
	Rules["C20"] = "(1) random file / database configuration mixes (1-4 integrations and 1-3 sources on each side, enabled / disabled, name clashes between file and database, several sources per integration, references to unknown sources by enabled and disabled integrations): the REAL loadTasks (on a fake PostgreSQL holding the stored rows) vs the Lean model (K) and vs the expected task set (O); (2) the REAL Manager on fake PostgreSQL + simulated node: tasks looping, integrations stored and Restart called at random moments (also two restarts in a row and a restart whose reload fails); the generation trace must show no (source, integration) pair with overlapping runners, every runner of the previous generation stopped before the restart returned, and the new generation = the configured task set. non-trivial = mix with a name clash / unknown source, or a scenario with a restart; distinct by configuration / scenario"
}

type gIg struct {
	name    string
	enabled bool
	refs    [][3]uint64 // source index, start, stop
	srcs    []string
}

func igEnc(xs []gIg) string {
	var out []string
	for _, g := range xs {
		var rs []string
		for i, r := range g.refs {
			rs = append(rs, fmt.Sprintf("%s:%d:%d", g.srcs[i], r[1], r[2]))
		}
		en := "0"
		if g.enabled {
			en = "1"
		}
		out = append(out, fmt.Sprintf("%s/%s/%s", g.name, en, listTok(rs, "+")))
	}
	return listTok(out, ";")
}

func (g gIg) cfg() config.Integration {
	ig := transferIG(g.name, "t_"+g.name, []string{"block_time"}, nil)
	ig.Enabled = g.enabled
	for i, r := range g.refs {
		ig.Sources = append(ig.Sources, config.Source{Name: g.srcs[i], Start: r[1], Stop: r[2]})
	}
	return ig
}

// JSON as the dashboard stores it
func (g gIg) json() string {
	ig := g.cfg()
	root := config.Root{Integrations: []config.Integration{ig}}
	config.ValidateFix(&root)
	ig = root.Integrations[0]
	m := map[string]any{"name": ig.Name, "enabled": ig.Enabled, "table": ig.Table, "event": ig.Event, "block": ig.Block}
	var srcs []map[string]any
	for _, s := range ig.Sources {
		srcs = append(srcs, map[string]any{"name": s.Name, "start": s.Start, "stop": s.Stop})
	}
	m["sources"] = srcs
	b, _ := json.Marshal(m)
	return string(b)
}

func runC20(e *core.Env) error {
	r := e.Rand
	ctx := context.Background()
	dashboardRange(e, "c20")
	// ---- (1) loadTasks
	for s := 0; s < e.N(60, 800) && !e.OverBudget(); s++ {
		rr := r.Fork()
		names := []string{"iga", "igb", "igc", "igd"}
		snames := []string{"s1", "s2", "s3", "nosuch"}
		mkIgs := func(n int) []gIg {
			var out []gIg
			for i := 0; i < n; i++ {
				g := gIg{name: core.Pick(rr, names), enabled: rr.Chance(3, 4)}
				for k := 0; k < 1+rr.Intn(2); k++ {
					sn := core.Pick(rr, snames[:3])
					if rr.Chance(1, 10) {
						sn = "nosuch"
					}
					g.srcs = append(g.srcs, sn)
					g.refs = append(g.refs, [3]uint64{0, uint64(rr.Intn(5)), uint64(rr.Intn(3) * 10)})
				}
				out = append(out, g)
			}
			// file integrations have unique names (a file with a duplicate is the user's problem)
			seen := map[string]bool{}
			var uniq []gIg
			for _, g := range out {
				if !seen[g.name] {
					seen[g.name] = true
					uniq = append(uniq, g)
				}
			}
			return uniq
		}
		fileIgs, dbIgs := mkIgs(rr.Intn(4)), mkIgs(rr.Intn(4))
		type gSrc struct {
			name               string
			chain, batch, conc int
			poll               int
		}
		mkSrcs := func(n int, db bool) []gSrc {
			var out []gSrc
			seen := map[string]bool{}
			for i := 0; i < n; i++ {
				s := gSrc{name: core.Pick(rr, snames[:3]), chain: 1 + rr.Intn(5), poll: 1000}
				if seen[s.name] {
					continue
				}
				seen[s.name] = true
				if !db {
					s.batch, s.conc = rr.Intn(4), rr.Intn(3)
					s.poll = core.Pick(rr, []int{1000, 50, 2000})
				}
				out = append(out, s)
			}
			return out
		}
		fileSrcs, dbSrcs := mkSrcs(1+rr.Intn(3), false), mkSrcs(rr.Intn(3), true)
		srcEnc := func(xs []gSrc) string {
			var out []string
			for _, s := range xs {
				out = append(out, fmt.Sprintf("%s/%d/%d/%d/%d", s.name, s.chain, s.batch, s.conc, s.poll))
			}
			return listTok(out, ";")
		}
		// the real thing
		pg := fakepg.New()
		url, _ := pg.Start()
		cfgp, _ := pgxpool.ParseConfig(url)
		cfgp.MaxConns = 3
		pool, err := pgxpool.NewWithConfig(ctx, cfgp)
		if err != nil {
			return err
		}
		for _, g := range dbIgs {
			pg.InsertRow("shovel.integrations", map[string]fakepg.Value{"name": g.name, "conf": fakepg.JSON(g.json())})
		}
		for _, s := range dbSrcs {
			pg.InsertRow("shovel.sources", map[string]fakepg.Value{"name": s.name, "chain_id": fakepg.Num(fmt.Sprint(s.chain)), "url": "http://127.0.0.1:1/" + s.name})
		}
		var conf config.Root
		for _, g := range fileIgs {
			conf.Integrations = append(conf.Integrations, g.cfg())
		}
		for _, s := range fileSrcs {
			conf.Sources = append(conf.Sources, config.Source{Name: s.name, ChainID: uint64(s.chain), URLs: []string{"http://127.0.0.1:1/" + s.name},
				BatchSize: s.batch, Concurrency: s.conc, PollDuration: time.Duration(s.poll) * time.Millisecond})
		}
		config.ValidateFix(&conf)
		impl := core.Protect(func() string {
			ts, err := shovel.VerifLoadTasks(ctx, pool, conf)
			if err != nil {
				return "err"
			}
			var out []string
			for _, t := range ts {
				out = append(out, fmt.Sprintf("%s/%s/%d/%d/%d/%d/%d/%d", t.Src, t.IG, t.Start, t.Stop, t.Batch, t.Conc, t.Poll.Milliseconds(), t.ChainID))
			}
			sort.Strings(out)
			return "ok " + strings.Join(out, ",")
		})
		go pool.Close()
		pg.Close()
		clash := false
		for _, a := range fileIgs {
			for _, b := range dbIgs {
				clash = clash || a.name == b.name
			}
		}
		// the property's own statement, computed independently: file wins on a clash, one task per
		// enabled integration and source reference with that source's settings, unknown source = error
		spec := func() string {
			igm := map[string]gIg{}
			var order []string
			for _, g := range append(append([]gIg{}, dbIgs...), fileIgs...) {
				if _, ok := igm[g.name]; !ok {
					order = append(order, g.name)
				}
				igm[g.name] = g
			}
			srm := map[string]gSrc{}
			for _, x := range append(append([]gSrc{}, dbSrcs...), fileSrcs...) {
				srm[x.name] = x
			}
			var out []string
			for _, n := range order {
				g := igm[n]
				if !g.enabled {
					continue
				}
				for i, ref := range g.refs {
					sc, ok := srm[g.srcs[i]]
					if !ok {
						return "err"
					}
					out = append(out, fmt.Sprintf("%s/%s/%d/%d/%d/%d/%d/%d", sc.name, g.name, ref[1], ref[2], max(sc.batch, 1), max(sc.conc, 1), sc.poll, sc.chain))
				}
			}
			sort.Strings(out)
			return "ok " + strings.Join(out, ",")
		}()
		e.Add(core.Case{Op: fmt.Sprintf("loadtasks %s %s %s %s", igEnc(fileIgs), igEnc(dbIgs), srcEnc(fileSrcs), srcEnc(dbSrcs)), Impl: impl, Spec: spec,
			Nontrivial: clash || impl == "err", Tags: []string{"loadtasks", fmt.Sprintf("clash=%v", clash), "impl:" + strings.SplitN(impl, " ", 2)[0]},
			Key: fmt.Sprintf("lt %d %d", s, e.Seed)})
	}
	// ---- (2) the real manager across restarts
	for s := 0; s < e.N(6, 60) && !e.OverBudget(); s++ {
		rr := r.Fork()
		verdict, tags := managerScenario(ctx, rr, s)
		e.Add(core.Case{Impl: verdict, Spec: "ok", Key: fmt.Sprintf("mgr %d %d", s, e.Seed), Nontrivial: true, Tags: append(tags, "manager-scenario")})
	}
	// ---- (2b) two configuration changes whose restarts OVERLAP: the second integration is stored after the
	// first restart has read the configuration and before that restart returns (every position of the
	// second request relative to the first one's reload is covered by where the hold is placed)
	for s := 0; s < e.N(4, 24) && !e.OverBudget(); s++ {
		verdict, tags := overlapScenario(ctx, s)
		e.Add(core.Case{Impl: verdict, Spec: "ok", Key: fmt.Sprintf("mgr-overlap %d", s), Nontrivial: true, Tags: append(tags, "manager-overlapping-restarts")})
	}
	// ---- (2c) a restart requested while a step of the running generation is IN FLIGHT (its first database
	// statement is held back): the restart must not report success - nor may a runner of the next
	// generation start - before that step has finished
	for s := 0; s < e.N(2, 10) && !e.OverBudget(); s++ {
		verdict, tags := inflightScenario(ctx, s)
		e.Add(core.Case{Impl: verdict, Spec: "ok", Key: fmt.Sprintf("mgr-inflight %d", s), Nontrivial: true, Tags: append(tags, "manager-restart-during-step")})
	}
	// a restart whose reload fails (an integration stored through the dashboard references an unknown
	// source): the property wants exactly the configured tasks running; recorded finding: nothing runs
	{
		verdict, _ := managerScenarioOpts(ctx, r.Fork(), 900, true)
		class := ""
		if strings.HasPrefix(verdict, "after a restart whose reload failed") {
			class = "C20.reload_error" // the recorded finding, and nothing else this scenario may observe
		}
		e.Add(core.Case{Impl: verdict, Spec: "ok", Class: class, Key: "mgr-reload-error", Nontrivial: true, Tags: []string{"manager-reload-error"}})
	}
	return c20Binary(e)
}

// c20Binary: the REAL shovel process with its dashboard. An integration is submitted to
// POST /save-integration of the running program; when the answer is "ok" a task for it exists and
// indexes, and the integration from the file keeps running. The same after the process is started again.
func c20Binary(e *core.Env) error {
	defer removeShovelBinary()
	r := e.Rand
	for rep := 0; rep < e.N(1, 3) && !e.OverBudget(); rep++ {
		rr := r.Fork()
		chain := transferChain(5+rr.Intn(3), uint64(1+rr.Intn(1000)))
		w, err := newWorld(e, chain)
		if err != nil {
			return err
		}
		fileIG := transferIG("file_ig", "t1", []string{"block_time"}, nil)
		dashIG := approvalIG("dash_ig", "t2", []string{"block_time"}, nil)
		doc := func(pgurl string) string {
			return fmt.Sprintf(`{"pg_url": %q, "dashboard": {"root_password": "x"}, "eth_sources": [{"name": "src1", "chain_id": 7, "url": %q, "poll_duration": "40ms", "batch_size": 2}], "integrations": [%s]}`,
				pgurl, w.node.URL(), igFileDoc(fileIG, "src1", 1))
		}
		root := config.Root{Integrations: []config.Integration{fileIG, dashIG}}
		if err := config.ValidateFix(&root); err != nil {
			w.close()
			return err
		}
		tFile, tDash := viewTask(root.Integrations[0], 1, 2, 1), viewTask(root.Integrations[1], 1, 2, 1)
		// the dashboard does not create tables: the user does (here: the harness, with the real Migrate)
		if conn, err := w.pool.Acquire(w.ctx); err == nil {
			config.Migrate(w.ctx, conn, config.Root{Integrations: root.Integrations[1:]})
			conn.Release()
		}
		verdict := "ok"
		var oracles []string
		reached := func(ts ...*wTask) bool {
			deadline := time.Now().Add(20 * time.Second)
			for time.Now().Before(deadline) {
				ok := true
				for _, t := range ts {
					if _, top, has, _ := w.taskRows(t); !has || top != w.head() {
						ok = false
					}
				}
				if ok {
					time.Sleep(100 * time.Millisecond)
					return true
				}
				time.Sleep(30 * time.Millisecond)
			}
			return false
		}
		p, err := startShovelOn(e, w.url, doc)
		if err != nil {
			e.Add(core.Case{Impl: "the shovel binary did not start: " + err.Error(), Spec: "started", Key: fmt.Sprintf("c20-bin-start %d", rep), Tags: []string{"binary"}})
			w.close()
			continue
		}
		if !reached(tFile) {
			verdict = "the integration of the configuration file never reached the head"
		}
		resp, err := http.Post(fmt.Sprintf("http://127.0.0.1:%d/save-integration", p.port), "application/json", strings.NewReader(igFileDoc(root.Integrations[1], "src1", 1))) // (the complete declaration, identity fields spelled out: what is stored is what runs)
		switch {
		case err != nil:
			verdict = "POST /save-integration: " + err.Error()
		default:
			b, _ := io.ReadAll(resp.Body)
			resp.Body.Close()
			if resp.StatusCode != 200 && verdict == "ok" {
				verdict = fmt.Sprintf("POST /save-integration answered %d %s", resp.StatusCode, trunc2(string(b)))
			}
		}
		w.grow(2)
		if verdict == "ok" && !reached(tFile, tDash) {
			_, topF, _, _ := w.taskRows(tFile)
			_, topD, hasD, _ := w.taskRows(tDash)
			verdict = fmt.Sprintf("the dashboard answered ok; 20 s later the head is %d, the file's integration is at %d, the submitted integration at %d (recorded=%v)", w.head(), topF, topD, hasD)
		}
		oracles = append(oracles, w.projOracle(tFile, 0), w.projOracle(tDash, 0))
		p.stop()
		w.grow(1)
		// a name clash in which the FILE's entry is disabled: "paused_ig" is stored (enabled) in the database and the
		// file the process is started with next lists it with "enabled": false. The file wins: nothing drives it.
		pausedIG := transferIG("paused_ig", "t3", []string{"block_time"}, nil)
		rootP := config.Root{Integrations: []config.Integration{pausedIG}}
		config.ValidateFix(&rootP)
		tPaused := viewTask(rootP.Integrations[0], 1, 2, 1)
		if conn, err := w.pool.Acquire(w.ctx); err == nil {
			config.Migrate(w.ctx, conn, rootP)
			conn.Exec(w.ctx, `insert into shovel.integrations(name, conf) values ($1, $2)`, "paused_ig", igFileDoc(rootP.Integrations[0], "src1", 1))
			conn.Release()
		}
		doc2 := func(pgurl string) string {
			var m map[string]any
			json.Unmarshal([]byte(igFileDoc(rootP.Integrations[0], "src1", 1)), &m)
			m["enabled"] = false
			pj, _ := json.Marshal(m)
			return fmt.Sprintf(`{"pg_url": %q, "dashboard": {"root_password": "x"}, "eth_sources": [{"name": "src1", "chain_id": 7, "url": %q, "poll_duration": "40ms", "batch_size": 2}], "integrations": [%s, %s]}`,
				pgurl, w.node.URL(), igFileDoc(fileIG, "src1", 1), pj)
		}
		if p, err = startShovelOn(e, w.url, doc2); err != nil {
			verdict = "the shovel binary did not start again: " + err.Error()
		} else {
			if verdict == "ok" && !reached(tFile, tDash) {
				verdict = "after a restart of the process the stored integration and the file's integration do not both reach the head"
			}
			if rws, top, has, _ := w.taskRows(tPaused); verdict == "ok" && (has || len(rws) > 0) {
				verdict = fmt.Sprintf("paused_ig is disabled in the configuration file (and stored enabled in the database): a runner drives it all the same — position %d, %d rows", top, len(rws))
			}
			oracles = append(oracles, w.projOracle(tFile, 0), w.projOracle(tDash, 0))
			p.stop()
		}
		e.Add(core.Case{Impl: verdict, Spec: "ok", Oracles: oracles, Nontrivial: true, Key: fmt.Sprintf("c20-binary %d %d", rep, e.Seed), Tags: []string{"binary", "stored-through-the-running-dashboard"}})
		w.close()
	}
	return nil
}

func managerScenario(ctx context.Context, rr *core.Rand, s int) (string, []string) {
	return managerScenarioOpts(ctx, rr, s, false)
}

func managerScenarioOpts(ctx context.Context, rr *core.Rand, s int, badReload bool) (string, []string) {
	shovel.VerifEvents()
	pg := fakepg.New()
	url, _ := pg.Start()
	cfgp, _ := pgxpool.ParseConfig(url)
	cfgp.MaxConns = 10
	pool, err := pgxpool.NewWithConfig(ctx, cfgp)
	if err != nil {
		return "setup: " + err.Error(), nil
	}
	node := simnode.NewNode(transferChain(4, uint64(10+s)))
	defer func() {
		// runners cannot be told to stop for good: leave them behind, they only see errors from now on
		node.Close()
		go pool.Close()
		pg.Close()
	}()
	conf := config.Root{
		Sources:      []config.Source{{Name: "s1", ChainID: 1, URLs: []string{node.URL() + "/nocache"}, PollDuration: 3 * time.Millisecond, BatchSize: 2}},
		Integrations: []config.Integration{gIg{name: "iga", enabled: true, srcs: []string{"s1"}, refs: [][3]uint64{{0, 1, 0}}}.cfg()},
	}
	if err := config.ValidateFix(&conf); err != nil {
		return "setup: " + err.Error(), nil
	}
	conn, _ := pool.Acquire(ctx)
	if err := config.Migrate(ctx, conn, conf); err != nil {
		conn.Release()
		return "setup: " + err.Error(), nil
	}
	conn.Release()
	mgr := shovel.NewManager(ctx, pool, conf)
	go func() {
		for {
			mgr.Updates() // drain the update notifications
		}
	}()
	ec := make(chan error)
	go mgr.Run(ec)
	if err := <-ec; err != nil {
		return "first run: " + err.Error(), nil
	}
	expect := map[string]bool{"s1/iga": true}
	var tags []string
	nRestarts := 1 + rr.Intn(3)
	type ret struct {
		at  time.Time
		err error
	}
	var rets []ret
	for k := 0; k < nRestarts; k++ {
		time.Sleep(time.Duration(2+rr.Intn(25)) * time.Millisecond)
		node.With(func(c *simnode.Chain) { c.Grow(1, simnode.GenOpts{Salt: uint64(100 + k), MakeTx: transferMakeTx}) })
		name := fmt.Sprintf("igdb%d", k)
		g := gIg{name: name, enabled: true, srcs: []string{"s1"}, refs: [][3]uint64{{0, 1, 0}}}
		if badReload && k == 0 {
			g.srcs = []string{"nosuch"}
		}
		// the table must exist (the dashboard flow does not create it: the user does)
		root := config.Root{Integrations: []config.Integration{g.cfg()}}
		config.ValidateFix(&root)
		conn, _ := pool.Acquire(ctx)
		config.Migrate(ctx, conn, root)
		conn.Release()
		viaDashboard := !badReload && rr.Chance(1, 2)
		if !viaDashboard {
			pg.InsertRow("shovel.integrations", map[string]fakepg.Value{"name": name, "conf": fakepg.JSON(g.json())})
		}
		if !(badReload && k == 0) {
			expect["s1/"+name] = true
		}
		if viaDashboard {
			// the way a user does it: POST /save-integration on the real dashboard handler, which stores the
			// integration and restarts the manager itself; when it answers "ok" the new set is running
			tags = append(tags, "stored-through-dashboard")
			wh := web.New(mgr, &conf, pool)
			req := httptest.NewRequest("POST", "/save-integration", strings.NewReader(g.json()))
			rec := httptest.NewRecorder()
			wh.SaveIntegration(rec, req)
			if rec.Code != 200 {
				return fmt.Sprintf("the dashboard refused to store integration %s: %d %s", name, rec.Code, trunc2(rec.Body.String())), tags
			}
			rets = append(rets, ret{time.Now(), nil})
			continue
		}
		if badReload && k == 0 {
			err := mgr.Restart()
			time.Sleep(1100 * time.Millisecond) // runners sleeping in the retry path return
			evs := shovel.VerifEvents()
			running := map[string]int{}
			for _, ev := range evs {
				switch ev.Kind {
				case "task-start":
					running[ev.Src+"/"+ev.IG]++
				case "task-stop":
					running[ev.Src+"/"+ev.IG]--
				}
			}
			n := 0
			for _, v := range running {
				n += v
			}
			// the way out of that state: the missing source is stored through the dashboard's own handler, which
			// restarts the manager — afterwards exactly the configured set runs (the integration that was waiting
			// for its source included)
			form := neturl.Values{"chainID": {"9"}, "name": {"nosuch"}, "ethURL": {node.URL() + "/nocache"}}
			rq := httptest.NewRequest("POST", "/save-source", strings.NewReader(form.Encode()))
			rq.Header.Set("Content-Type", "application/x-www-form-urlencoded")
			rc := httptest.NewRecorder()
			web.New(mgr, &conf, pool).SaveSource(rc, rq)
			if rc.Code >= 400 {
				return fmt.Sprintf("the dashboard refused to store the source: %d %s", rc.Code, trunc2(rc.Body.String())), tags
			}
			time.Sleep(150 * time.Millisecond)
			for _, ev := range shovel.VerifEvents() {
				switch ev.Kind {
				case "task-start":
					running[ev.Src+"/"+ev.IG]++
				case "task-stop":
					running[ev.Src+"/"+ev.IG]--
				}
			}
			for _, want := range []string{"s1/iga", "nosuch/igdb0"} {
				if running[want] != 1 {
					return fmt.Sprintf("the source an integration was waiting for has been stored through the dashboard (answer %d); %s has %d runners — running: %v", rc.Code, want, running[want], running), tags
				}
			}
			if err != nil && n == 0 {
				return "after a restart whose reload failed (" + trunc2(err.Error()) + ") no task is running", tags
			}
			return "ok", tags
		}
		double := rr.Chance(1, 3)
		if double {
			tags = append(tags, "two-restarts-at-once")
			done := make(chan error, 1)
			go func() { done <- mgr.Restart() }()
			err := mgr.Restart()
			rets = append(rets, ret{time.Now(), err})
			<-done
			rets = append(rets, ret{time.Now(), nil})
		} else {
			err := mgr.Restart()
			rets = append(rets, ret{time.Now(), err})
		}
	}
	time.Sleep(30 * time.Millisecond)
	evs := shovel.VerifEvents()
	// ---- check the trace
	type iv struct {
		gen        uint64
		start, end time.Time
		open       bool
	}
	runs := map[string][]*iv{}
	var lastGen uint64
	genBegin := map[uint64]time.Time{}
	for _, ev := range evs {
		key := ev.Src + "/" + ev.IG
		switch ev.Kind {
		case "run-begin":
			lastGen = ev.Gen
			genBegin[ev.Gen] = ev.At
		case "task-start":
			runs[key] = append(runs[key], &iv{gen: ev.Gen, start: ev.At, open: true})
		case "task-stop":
			for _, x := range runs[key] {
				if x.open {
					x.open, x.end = false, ev.At
					break
				}
			}
		}
	}
	for key, xs := range runs {
		open := 0
		for i, x := range xs {
			if x.open {
				open++
			}
			for _, y := range xs[i+1:] {
				// two runners of one pair overlap if the later one started before the earlier one stopped
				if x.open || y.start.Before(x.end) {
					return fmt.Sprintf("pair %s driven by two runners at once (generations %d and %d)", key, x.gen, y.gen), tags
				}
			}
		}
		if open > 1 {
			return fmt.Sprintf("pair %s has %d runners", key, open), tags
		}
	}
	// the final generation runs exactly the configured set
	got := map[string]bool{}
	for key, xs := range runs {
		for _, x := range xs {
			if x.open && x.gen == lastGen {
				got[key] = true
			}
		}
	}
	for k := range expect {
		if !got[k] {
			return fmt.Sprintf("after the last restart %s is not running (running: %v)", k, keysOf(got)), tags
		}
	}
	for k := range got {
		if !expect[k] {
			return fmt.Sprintf("unexpected runner %s", k), tags
		}
	}
	for _, rt := range rets {
		if rt.err != nil {
			return "restart returned " + rt.err.Error(), tags
		}
	}
	return "ok", append(tags, fmt.Sprintf("restarts=%d", nRestarts))
}

func keysOf(m map[string]bool) []string {
	var out []string
	for k := range m {
		out = append(out, k)
	}
	sort.Strings(out)
	return out
}

// overlapScenario: restart A is held inside its reload (at the k-th database operation after it has read
// shovel.integrations); meanwhile integration B is stored and restart B is requested. Once both
// restarts have returned nil, exactly the configured pairs - B's included - must be running.
func overlapScenario(ctx context.Context, s int) (string, []string) {
	shovel.VerifEvents()
	pg := fakepg.New()
	url, _ := pg.Start()
	cfgp, _ := pgxpool.ParseConfig(url)
	cfgp.MaxConns = 10
	pool, err := pgxpool.NewWithConfig(ctx, cfgp)
	if err != nil {
		return "setup: " + err.Error(), nil
	}
	node := simnode.NewNode(transferChain(4, uint64(300+s)))
	defer func() {
		pg.SetHoldHook(nil)
		node.Close()
		go pool.Close()
		pg.Close()
	}()
	conf := config.Root{
		Sources:      []config.Source{{Name: "s1", ChainID: 1, URLs: []string{node.URL() + "/nocache"}, PollDuration: 3 * time.Millisecond, BatchSize: 2}},
		Integrations: []config.Integration{gIg{name: "iga", enabled: true, srcs: []string{"s1"}, refs: [][3]uint64{{0, 1, 0}}}.cfg()},
	}
	if err := config.ValidateFix(&conf); err != nil {
		return "setup: " + err.Error(), nil
	}
	store := func(name string) {
		g := gIg{name: name, enabled: true, srcs: []string{"s1"}, refs: [][3]uint64{{0, 1, 0}}}
		root := config.Root{Integrations: []config.Integration{g.cfg()}}
		config.ValidateFix(&root)
		conn, _ := pool.Acquire(ctx)
		config.Migrate(ctx, conn, root)
		conn.Release()
		pg.InsertRow("shovel.integrations", map[string]fakepg.Value{"name": name, "conf": fakepg.JSON(g.json())})
	}
	conn, _ := pool.Acquire(ctx)
	if err := config.Migrate(ctx, conn, conf); err != nil {
		conn.Release()
		return "setup: " + err.Error(), nil
	}
	conn.Release()
	// B's table exists beforehand (the dashboard flow does not create it)
	{
		g := gIg{name: "igB", enabled: true, srcs: []string{"s1"}, refs: [][3]uint64{{0, 1, 0}}}
		root := config.Root{Integrations: []config.Integration{g.cfg()}}
		config.ValidateFix(&root)
		conn, _ := pool.Acquire(ctx)
		config.Migrate(ctx, conn, root)
		conn.Release()
	}
	mgr := shovel.NewManager(ctx, pool, conf)
	go func() {
		for {
			mgr.Updates()
		}
	}()
	ec := make(chan error)
	go mgr.Run(ec)
	if err := <-ec; err != nil {
		return "first run: " + err.Error(), nil
	}
	time.Sleep(5 * time.Millisecond)
	store("igA")
	// hold restart A at the (s%6)-th database operation after its read of shovel.integrations
	holdAt := s % 6
	var mu sync.Mutex
	armed, seenRead, after, held := true, false, 0, false
	reached, release := make(chan struct{}), make(chan struct{})
	pg.SetHoldHook(func(ev fakepg.Event) {
		mu.Lock()
		if !armed || held {
			mu.Unlock()
			return
		}
		if !seenRead {
			if strings.Contains(ev.SQL, "shovel.integrations") && ev.Kind == "query" {
				seenRead = true
			}
			mu.Unlock()
			return
		}
		if after < holdAt {
			after++
			mu.Unlock()
			return
		}
		held = true
		mu.Unlock()
		close(reached)
		select {
		case <-release:
		case <-time.After(3 * time.Second):
		}
	})
	aDone, bDone := make(chan error, 1), make(chan error, 1)
	go func() { aDone <- mgr.Restart() }()
	select {
	case <-reached:
	case <-time.After(2 * time.Second):
		mu.Lock()
		armed = false
		mu.Unlock()
		return "ok", []string{"hold-not-reached"} // restart A finished before the hold point: nothing overlapped
	}
	pg.InsertRow("shovel.integrations", map[string]fakepg.Value{"name": "igB", "conf": fakepg.JSON(gIg{name: "igB", enabled: true, srcs: []string{"s1"}, refs: [][3]uint64{{0, 1, 0}}}.json())})
	go func() { bDone <- mgr.Restart() }()
	var errA, errB error
	bEarly := false
	select {
	case errB = <-bDone:
		bEarly = true // B returned while A was still inside its reload
	case <-time.After(40 * time.Millisecond):
	}
	close(release)
	select {
	case errA = <-aDone:
	case <-time.After(5 * time.Second):
		return "restart A did not return", nil
	}
	if !bEarly {
		select {
		case errB = <-bDone:
		case <-time.After(5 * time.Second):
			return "restart B did not return", nil
		}
	}
	tags := []string{fmt.Sprintf("hold-at=%d", holdAt), fmt.Sprintf("b-returned-during-a=%v", bEarly)}
	if errA != nil || errB != nil {
		return fmt.Sprintf("restart returned an error: %v / %v", errA, errB), tags
	}
	time.Sleep(40 * time.Millisecond)
	evs := shovel.VerifEvents()
	running := map[string]int{}
	var lastGen uint64
	for _, ev := range evs {
		key := ev.Src + "/" + ev.IG
		switch ev.Kind {
		case "run-begin":
			lastGen = ev.Gen
		case "task-start":
			running[key]++
		case "task-stop":
			running[key]--
		}
	}
	_ = lastGen
	for _, want := range []string{"s1/iga", "s1/igA", "s1/igB"} {
		switch {
		case running[want] == 0:
			return fmt.Sprintf("integration %s was stored before its Restart returned nil, but no runner drives it (running: %v)", want, running), tags
		case running[want] > 1:
			return fmt.Sprintf("pair %s has %d runners", want, running[want]), tags
		}
	}
	for k, v := range running {
		if v != 0 && k != "s1/iga" && k != "s1/igA" && k != "s1/igB" {
			return "unexpected runner " + k, tags
		}
	}
	return "ok", tags
}

// inflightScenario: see (2c) in runC20
func inflightScenario(ctx context.Context, s int) (string, []string) {
	shovel.VerifEvents()
	pg := fakepg.New()
	url, _ := pg.Start()
	cfgp, _ := pgxpool.ParseConfig(url)
	cfgp.MaxConns = 10
	pool, err := pgxpool.NewWithConfig(ctx, cfgp)
	if err != nil {
		return "setup: " + err.Error(), nil
	}
	node := simnode.NewNode(transferChain(4, uint64(500+s)))
	defer func() {
		pg.SetHoldHook(nil)
		node.Close()
		go pool.Close()
		pg.Close()
	}()
	conf := config.Root{
		Sources:      []config.Source{{Name: "s1", ChainID: 1, URLs: []string{node.URL() + "/nocache"}, PollDuration: 3 * time.Millisecond, BatchSize: 2}},
		Integrations: []config.Integration{gIg{name: "iga", enabled: true, srcs: []string{"s1"}, refs: [][3]uint64{{0, 1, 0}}}.cfg()},
	}
	if err := config.ValidateFix(&conf); err != nil {
		return "setup: " + err.Error(), nil
	}
	conn, _ := pool.Acquire(ctx)
	if err := config.Migrate(ctx, conn, conf); err != nil {
		conn.Release()
		return "setup: " + err.Error(), nil
	}
	conn.Release()
	// hold back the (1+s%3)-th step of the first generation at its first statement
	var mu sync.Mutex
	nth, seen, held := 1+s%3, 0, false
	reached, release := make(chan struct{}), make(chan struct{})
	var heldConn int
	var afterHold []fakepg.Event
	pg.SetHoldHook(func(ev fakepg.Event) {
		mu.Lock()
		if held {
			if ev.Conn != heldConn {
				afterHold = append(afterHold, ev)
			}
			mu.Unlock()
			return
		}
		if ev.Kind == "begin" {
			seen++
			if seen == nth {
				held, heldConn = true, ev.Conn
				mu.Unlock()
				close(reached)
				select {
				case <-release:
				case <-time.After(3 * time.Second):
				}
				return
			}
		}
		mu.Unlock()
	})
	mgr := shovel.NewManager(ctx, pool, conf)
	go func() {
		for {
			mgr.Updates()
		}
	}()
	ec := make(chan error)
	go mgr.Run(ec)
	if err := <-ec; err != nil {
		return "first run: " + err.Error(), nil
	}
	select {
	case <-reached:
	case <-time.After(3 * time.Second):
		return "ok", []string{"hold-not-reached"}
	}
	done := make(chan error, 1)
	go func() { done <- mgr.Restart() }()
	verdict := "ok"
	select {
	case err := <-done:
		verdict = fmt.Sprintf("Restart returned (%v) while a step of the running generation was still in flight", err)
	case <-time.After(150 * time.Millisecond):
	}
	mu.Lock()
	for _, ev := range afterHold {
		if ev.Kind == "begin" && verdict == "ok" {
			verdict = "another step started (a transaction was opened on another connection) while the held step of the previous generation was still in flight"
		}
	}
	mu.Unlock()
	close(release)
	if verdict == "ok" {
		select {
		case err := <-done:
			if err != nil {
				verdict = "restart returned " + err.Error()
			}
		case <-time.After(5 * time.Second):
			verdict = "restart did not return after the held step was released"
		}
	}
	return verdict, []string{fmt.Sprintf("held-step=%d", nth)}
}

// dashboardRange: an integration submitted to the RUNNING program through POST /save-integration with a
// start and a stop on its source reference is stored, loaded and run with exactly that range (C06: only
// blocks inside the configured range; C20: each task with the integration's start and stop).
func dashboardRange(e *core.Env, key string) {
	ctx := context.Background()
	{
		// one declaration on several sources, each reference with its OWN start and stop (file configuration,
		// in both orders): every task gets the range written next to its source
		for oi, order := range [][]int{{0, 1, 2}, {2, 0, 1}} {
			refs := []config.Source{{Name: "sa", Start: 3, Stop: 5}, {Name: "sb", Start: 700, Stop: 0}, {Name: "sc", Start: 40, Stop: 41}}
			ig := transferIG("igmulti", "tmulti", []string{"block_time"}, nil)
			for _, k := range order {
				ig.Sources = append(ig.Sources, refs[k])
			}
			conf := config.Root{Integrations: []config.Integration{ig}}
			for _, rf := range refs {
				conf.Sources = append(conf.Sources, config.Source{Name: rf.Name, ChainID: 7, URLs: []string{"http://127.0.0.1:1"}, PollDuration: time.Second})
			}
			verdict := "ok"
			if err := config.ValidateFix(&conf); err != nil {
				verdict = "rejected: " + err.Error()
			} else {
				pg := fakepg.New()
				url, _ := pg.Start()
				if pool, err := pgxpool.New(ctx, url); err == nil {
					ts, lerr := shovel.VerifLoadTasks(ctx, pool, conf)
					if lerr != nil {
						verdict = "load: " + lerr.Error()
					}
					seen := 0
					for _, t := range ts {
						for _, rf := range refs {
							if t.Src == rf.Name {
								seen++
								if t.Start != rf.Start || t.Stop != rf.Stop {
									verdict = fmt.Sprintf("source %s is referenced with start %d stop %d, its task runs with start %d stop %d", rf.Name, rf.Start, rf.Stop, t.Start, t.Stop)
								}
							}
						}
					}
					if lerr == nil && seen != 3 {
						verdict = fmt.Sprintf("%d tasks for three source references", seen)
					}
					go pool.Close()
				}
				pg.Close()
			}
			e.Add(core.Case{Impl: verdict, Spec: "ok", Key: fmt.Sprintf("%s-range-per-source %d", key, oi), Nontrivial: true, Tags: []string{"range-per-source-reference"}})
		}
	}
	for vi, rng := range [][2]uint64{{3, 5}, {2, 2}, {4, 0}} {
		verdict := func() string {
			pg := fakepg.New()
			url, _ := pg.Start()
			pool, err := pgxpool.New(ctx, url)
			if err != nil {
				return "setup: " + err.Error()
			}
			node := simnode.NewNode(transferChain(9, uint64(60+vi)))
			defer func() {
				node.Close()
				go pool.Close()
				pg.Close()
			}()
			conf := config.Root{Sources: []config.Source{{Name: "s1", ChainID: 1, URLs: []string{node.URL() + "/nocache"}, PollDuration: 3 * time.Millisecond, BatchSize: 2}}}
			if err := config.ValidateFix(&conf); err != nil {
				return "setup: " + err.Error()
			}
			mgr := shovel.NewManager(ctx, pool, conf)
			go func() {
				for {
					mgr.Updates()
				}
			}()
			ec := make(chan error)
			go mgr.Run(ec)
			if err := <-ec; err != nil {
				return "first run: " + err.Error()
			}
			g := gIg{name: "igrange", enabled: true, srcs: []string{"s1"}, refs: [][3]uint64{{0, rng[0], rng[1]}}}
			root := config.Root{Integrations: []config.Integration{g.cfg()}}
			config.ValidateFix(&root)
			conn, _ := pool.Acquire(ctx)
			config.Migrate(ctx, conn, root)
			conn.Release()
			wh := web.New(mgr, &conf, pool)
			// looking at the dashboard's pages changes nothing: the configuration the manager reloads from is
			// the one the file declared (same sources, same URLs with their paths and keys)
			before, _ := json.Marshal(conf)
			for _, page := range []struct {
				path string
				h    func(http.ResponseWriter, *http.Request)
			}{{"/", wh.Index}, {"/add-source", wh.AddSource}, {"/add-integration", wh.AddIntegration}, {"/diag", wh.Diag}} {
				core.Protect(func() string { page.h(httptest.NewRecorder(), httptest.NewRequest("GET", page.path, nil)); return "" })
			}
			if after, _ := json.Marshal(conf); string(after) != string(before) {
				return fmt.Sprintf("viewing the dashboard pages changed the configuration the manager runs from: %s -> %s", trunc2(string(before)), trunc2(string(after)))
			}
			req := httptest.NewRequest("POST", "/save-integration", strings.NewReader(g.json()))
			rec := httptest.NewRecorder()
			wh.SaveIntegration(rec, req)
			if rec.Code != 200 {
				return fmt.Sprintf("the dashboard refused to store the integration: %d %s", rec.Code, trunc2(rec.Body.String()))
			}
			// a second integration stored after it, with ANOTHER range: each keeps its own
			g2 := gIg{name: "igother", enabled: true, srcs: []string{"s1"}, refs: [][3]uint64{{0, rng[0] + 4, 0}}}
			root2 := config.Root{Integrations: []config.Integration{g2.cfg()}}
			config.ValidateFix(&root2)
			if conn, err := pool.Acquire(ctx); err == nil {
				config.Migrate(ctx, conn, root2)
				conn.Release()
			}
			rec2 := httptest.NewRecorder()
			wh.SaveIntegration(rec2, httptest.NewRequest("POST", "/save-integration", strings.NewReader(g2.json())))
			if rec2.Code != 200 {
				return fmt.Sprintf("the dashboard refused to store the second integration: %d %s", rec2.Code, trunc2(rec2.Body.String()))
			}
			ts, err := shovel.VerifLoadTasks(ctx, pool, conf)
			if err != nil {
				return "load: " + err.Error()
			}
			for _, t := range ts {
				if t.IG == "igother" && (t.Start != rng[0]+4 || t.Stop != 0) {
					return fmt.Sprintf("igother was submitted with start %d and no stop, it is loaded with start %d stop %d", rng[0]+4, t.Start, t.Stop)
				}
			}
			found := false
			for _, t := range ts {
				if t.IG == "igrange" {
					found = true
					if t.Start != rng[0] || t.Stop != rng[1] {
						return fmt.Sprintf("submitted with start %d stop %d, loaded with start %d stop %d", rng[0], rng[1], t.Start, t.Stop)
					}
				}
			}
			if !found {
				return "the stored integration is not loaded"
			}
			time.Sleep(200 * time.Millisecond)
			for _, r := range pg.Rows("shovel.task_updates") {
				if fmt.Sprint(r["ig_name"]) != "igrange" {
					continue
				}
				var n uint64
				fmt.Sscan(fmt.Sprint(r["num"]), &n)
				if n < rng[0] || (rng[1] > 0 && n > rng[1]) {
					return fmt.Sprintf("position %d recorded outside the submitted range %d..%d", n, rng[0], rng[1])
				}
			}
			return "ok"
		}()
		e.Add(core.Case{Impl: verdict, Spec: "ok", Key: fmt.Sprintf("%s-dashboard-range %d-%d", key, rng[0], rng[1]), Nontrivial: true, Tags: []string{"range-submitted-through-dashboard"}})
	}
}
