package props

import (
	"context"
	"encoding/json"
	"fmt"
	"strings"

	"github.com/indexsupply/shovel/dig"
	"github.com/indexsupply/shovel/shovel/config"
	"github.com/indexsupply/shovel/wpg"
	"github.com/jackc/pgx/v5/pgxpool"

	"verifharness/core"
	"verifharness/fakepg"
)

// declarations stored in the database (the dashboard path) come back from the REAL config.Integrations
// exactly as stored: each event declaration keeps its own name, inputs (indexed flags, components) and
// therefore its own signature - however many declarations are stored next to it.
type dbDecl struct {
	name   string
	event  dig.Event
	canon  string // canonical signature, written independently
	nIndex int
}

func dbDeclRoundTrip(e *core.Env, group []dbDecl, key string) {
	ctx := context.Background()
	pg := fakepg.New()
	url, err := pg.Start()
	if err != nil {
		return
	}
	defer pg.Close()
	pool, err := pgxpool.New(ctx, url)
	if err != nil {
		return
	}
	defer func() { go pool.Close() }()
	stored := map[string]string{}
	for i, d := range group {
		ig := config.Integration{Name: d.name, Enabled: true, Event: d.event}
		ig.Table = wpg.Table{Name: "t_" + d.name, Columns: []wpg.Column{{Name: "c", Type: "bytea"}}}
		ig.Sources = []config.Source{{Name: fmt.Sprintf("src%d", i+1), Start: uint64(10 * (i + 1))}}
		ig.Block = []dig.BlockData{{Name: "log_addr", Column: "c"}}
		j, _ := json.Marshal(ig)
		stored[d.name] = string(j)
		pg.InsertRow("shovel.integrations", map[string]fakepg.Value{"name": d.name, "conf": fakepg.JSON(string(j))})
	}
	var loaded []config.Integration
	out := core.Protect(func() string {
		var err error
		loaded, err = config.Integrations(ctx, pool)
		if err != nil {
			return "err " + err.Error()
		}
		return "ok"
	})
	verdict := "ok"
	if out != "ok" {
		verdict = "loading the stored declarations: " + out
	}
	if verdict == "ok" && len(loaded) != len(group) {
		verdict = fmt.Sprintf("%d declarations stored, %d loaded", len(group), len(loaded))
	}
	byName := map[string]config.Integration{}
	for _, l := range loaded {
		byName[l.Name] = l
	}
	for i, d := range group {
		if verdict != "ok" {
			break
		}
		l, ok := byName[d.name]
		if !ok {
			verdict = "declaration " + d.name + " is not among the loaded ones"
			break
		}
		n := 0
		for _, in := range l.Event.Inputs {
			if in.Indexed {
				n++
			}
		}
		var alone config.Integration
		json.Unmarshal([]byte(stored[d.name]), &alone)
		ja, _ := json.Marshal(alone)
		jl, _ := json.Marshal(l)
		switch {
		case core.Protect(func() string { return l.Event.Signature() }) != d.canon:
			verdict = fmt.Sprintf("declaration %s was stored with signature %s and loaded with signature %s", d.name, d.canon, l.Event.Signature())
		case n != d.nIndex:
			verdict = fmt.Sprintf("declaration %s was stored with %d indexed inputs and loaded with %d", d.name, d.nIndex, n)
		case len(l.Sources) != 1 || l.Sources[0].Name != fmt.Sprintf("src%d", i+1) || l.Sources[0].Start != uint64(10*(i+1)):
			verdict = fmt.Sprintf("declaration %s was stored for source src%d from block %d and loaded as %+v", d.name, i+1, 10*(i+1), l.Sources)
		case string(ja) != string(jl):
			verdict = fmt.Sprintf("declaration %s differs from what was stored: %s", d.name, trunc2(string(jl)))
		}
	}
	var sigs []string
	for _, d := range group {
		sigs = append(sigs, d.canon)
	}
	e.Add(core.Case{Impl: verdict, Spec: "ok", Key: key, Nontrivial: len(group) > 1, Tags: []string{"declarations-through-the-database", fmt.Sprintf("stored-together=%d", len(group))},
		Detail: map[string]any{"signatures": strings.Join(sigs, " ; ")}})
}
