package props

import (
	"bytes"
	"context"
	"fmt"
	"sort"
	"strings"
	"time"

	"github.com/indexsupply/shovel/eth"
	"github.com/indexsupply/shovel/jrpc2"
	"github.com/indexsupply/shovel/shovel/glf"

	"verifharness/core"
	"verifharness/simnode"
)

func init() {
	Registry["C07"] = runC07
	Rules["C07"] = "the REAL jrpc2.Client.Get/Latest/Hash against a simulated node: every reachable data plan (headers, blocks, receipts, logs, traces and combinations) x ranges (start 1..3, limit 1..4); for each honest request EVERY HTTP exchange x EVERY element is corrupted in turn by every class (error member, null result, dropped / duplicated / swapped batch element, renumbered block, broken parent link, log moved out of range, log/receipt/trace naming another block or carrying another block hash, accompanying header of the logs batch from another fork, non-2xx status, truncated body, dropped connection) plus random double corruptions; outcome compared with the model over abstract responses (K) and with the Spec: either an error or exactly the honest result (O). non-trivial = a corruption that changed at least one response element; distinct by (plan, range, exchange, element, class)"
}

func hexs(v any) string {
	s, _ := v.(string)
	return strings.TrimPrefix(s, "0x")
}

func hexn(v any) uint64 {
	s, _ := v.(string)
	var n uint64
	fmt.Sscanf(strings.TrimPrefix(s, "0x"), "%x", &n)
	return n
}

func numAny(v any) uint64 {
	switch x := v.(type) {
	case float64:
		return uint64(x)
	case int:
		return uint64(x)
	case uint64:
		return x
	case string:
		return hexn(x)
	}
	return 0
}

func elKind(r map[string]any) string {
	if e, ok := r["error"]; ok && e != nil {
		return "E"
	}
	if r["result"] == nil {
		return "N"
	}
	return ""
}

func absHeader(r map[string]any, withTxs bool) string {
	if k := elKind(r); k != "" {
		return k
	}
	m, ok := r["result"].(map[string]any)
	if !ok {
		return "N"
	}
	var txs []string
	if withTxs {
		if arr, ok := m["transactions"].([]any); ok {
			for _, t := range arr {
				if tm, ok := t.(map[string]any); ok {
					txs = append(txs, fmt.Sprint(hexn(tm["transactionIndex"])))
				}
			}
		}
	}
	return fmt.Sprintf("H:%d:%s:%s:%s", hexn(m["number"]), hexs(m["hash"]), hexs(m["parentHash"]), listTok(txs, ","))
}

func absItems(arr []any, trace bool) string {
	var out []string
	for _, it := range arr {
		m, ok := it.(map[string]any)
		if !ok {
			continue
		}
		if trace {
			out = append(out, fmt.Sprintf("%d/%s/%d/0", numAny(m["blockNumber"]), hexs(m["blockHash"]), numAny(m["transactionPosition"])))
		} else {
			out = append(out, fmt.Sprintf("%d/%s/%d/%d", hexn(m["blockNumber"]), hexs(m["blockHash"]), hexn(m["transactionIndex"]), hexn(m["logIndex"])))
		}
	}
	return listTok(out, ";")
}

// abstract one exchange (as finally sent) for the model
// wideNumber: some quantity of the reply does not fit 64 bits — the body cannot be decoded into the
// client's types (JSON decoding is glue: for the model this is a failed exchange)
func wideNumber(v any) bool {
	switch x := v.(type) {
	case map[string]any:
		for k, y := range x {
			if s, ok := y.(string); ok && (k == "number" || k == "blockNumber" || k == "transactionIndex" || k == "logIndex") &&
				strings.HasPrefix(s, "0x") && len(strings.TrimLeft(s[2:], "0")) > 16 {
				return true
			}
			if wideNumber(y) {
				return true
			}
		}
	case []any:
		for _, y := range x {
			if wideNumber(y) {
				return true
			}
		}
	}
	return false
}

// badHex: some "0x…" string of the reply contains a character that is no hex digit (undecodable body)
func badHex(v any) bool {
	switch x := v.(type) {
	case string:
		if strings.HasPrefix(x, "0x") {
			for _, c := range x[2:] {
				if !(c >= '0' && c <= '9' || c >= 'a' && c <= 'f' || c >= 'A' && c <= 'F') {
					return true
				}
			}
		}
	case map[string]any:
		for _, y := range x {
			if badHex(y) {
				return true
			}
		}
	case []any:
		for _, y := range x {
			if badHex(y) {
				return true
			}
		}
	}
	return false
}

func absExchange(ex simnode.Exchange) string {
	if ex.Drop || (ex.Status != 0 && ex.Status/100 != 2) || ex.RawBody != nil {
		return "X"
	}
	for _, r := range ex.Responses {
		if wideNumber(map[string]any(r)) || badHex(map[string]any(r)) {
			return "X"
		}
	}
	if len(ex.Requests) == 0 {
		return "X"
	}
	m0 := ex.Requests[0].Method
	isLogs := len(ex.Requests) == 2 && ex.Requests[1].Method == "eth_getLogs"
	switch {
	case isLogs:
		h, l := "N", "N"
		if len(ex.Responses) > 0 {
			h = absHeader(ex.Responses[0], false)
		}
		if len(ex.Responses) > 1 {
			r := ex.Responses[1]
			if k := elKind(r); k != "" {
				l = k
			} else if arr, ok := r["result"].([]any); ok {
				l = "L:" + absItems(arr, false)
			}
		}
		return fmt.Sprintf("L=%s|%s|%d", h, l, len(ex.Responses))
	case m0 == "eth_getBlockByNumber":
		full := false
		if len(ex.Requests[0].Params) > 1 && string(ex.Requests[0].Params[1]) == "true" {
			full = true
		}
		var els []string
		for _, r := range ex.Responses {
			els = append(els, absHeader(r, full))
		}
		return "H=" + listTok(els, "|")
	case m0 == "eth_getBlockReceipts":
		var els []string
		for _, r := range ex.Responses {
			if k := elKind(r); k != "" {
				els = append(els, k)
				continue
			}
			arr, _ := r["result"].([]any)
			var rs []string
			for _, it := range arr {
				m, ok := it.(map[string]any)
				if !ok {
					continue
				}
				var ls []string
				if la, ok := m["logs"].([]any); ok {
					for _, l := range la {
						if lm, ok := l.(map[string]any); ok {
							ls = append(ls, fmt.Sprint(hexn(lm["logIndex"])))
						}
					}
				}
				rs = append(rs, fmt.Sprintf("%d/%s/%d/%s", hexn(m["blockNumber"]), hexs(m["blockHash"]), hexn(m["transactionIndex"]), listTok(ls, ".")))
			}
			els = append(els, "R:"+listTok(rs, ";"))
		}
		return "R=" + listTok(els, "|")
	case m0 == "trace_block":
		if len(ex.Responses) == 0 {
			return "X"
		}
		r := ex.Responses[0]
		if k := elKind(r); k != "" {
			return "T=" + k
		}
		arr, _ := r["result"].([]any)
		return "T=T:" + absItems(arr, true)
	}
	return "X"
}

func blocksDigest(bs []eth.Block) string {
	var out []string
	for i := range bs {
		var txs []string
		for j := range bs[i].Txs {
			t := &bs[i].Txs[j]
			var ls []string
			for _, l := range t.Logs {
				ls = append(ls, fmt.Sprint(uint64(l.Idx)))
			}
			txs = append(txs, fmt.Sprintf("%s:%s:%d", pad12(fmt.Sprint(uint64(t.Idx))), strings.Join(ls, "."), len(t.TraceActions)))
		}
		sort.Strings(txs)
		out = append(out, fmt.Sprintf("%d/%x/%x/%s", bs[i].Num(), bs[i].Hash(), bs[i].Header.Parent, strings.Join(txs, ",")))
	}
	return strings.Join(out, "|")
}

// contentCheck: every receipt, log and trace of an accepted reply sits on the block and transaction the
// node's own chain has it on, unchanged (for replies whose items are the node's honest items, in
// whatever order they arrived)
func contentCheck(bs []eth.Block, chain *simnode.Chain, flt *glf.Filter) string {
	for i := range bs {
		n := bs[i].Num()
		if n >= uint64(len(chain.Blocks)) {
			return fmt.Sprintf("block %d is not on the chain", n)
		}
		cb := &chain.Blocks[n]
		for j := range bs[i].Txs {
			t := &bs[i].Txs[j]
			if uint64(t.Idx) >= uint64(len(cb.Txs)) {
				return fmt.Sprintf("block %d: transaction index %d does not exist", n, uint64(t.Idx))
			}
			ct := &cb.Txs[t.Idx]
			if flt.UseBlocks && !bytes.Equal(t.PrecompHash, ct.Hash) {
				return fmt.Sprintf("block %d tx %d: carries the hash of another transaction", n, uint64(t.Idx))
			}
			if flt.UseReceipts && (uint64(t.GasUsed) != ct.GasUsed || byte(t.Status) != ct.Status || !bytes.Equal(t.ContractAddress, ct.ContractAddress)) {
				return fmt.Sprintf("block %d tx %d: receipt fields are those of another transaction (gasUsed %d, the node has %d)", n, uint64(t.Idx), uint64(t.GasUsed), ct.GasUsed)
			}
			for _, l := range t.Logs {
				found := false
				for _, cl := range ct.Logs {
					if cl.Idx == uint64(l.Idx) {
						found = bytes.Equal(cl.Addr, l.Address) && bytes.Equal(cl.Data, l.Data)
					}
				}
				if !found {
					return fmt.Sprintf("block %d tx %d: log %d is not a log of this transaction (or is altered)", n, uint64(t.Idx), uint64(l.Idx))
				}
			}
			if flt.UseTraces {
				if len(t.TraceActions) != len(ct.Traces) {
					return fmt.Sprintf("block %d tx %d: %d trace actions, the node has %d", n, uint64(t.Idx), len(t.TraceActions), len(ct.Traces))
				}
				seenIdx := map[uint64]bool{}
				for _, a := range t.TraceActions {
					// the actions of one transaction are told apart by their index (it is part of the row key)
					if seenIdx[uint64(a.Idx)] {
						return fmt.Sprintf("block %d tx %d: two trace actions carry the index %d", n, uint64(t.Idx), uint64(a.Idx))
					}
					seenIdx[uint64(a.Idx)] = true
					found := false
					for _, ca := range ct.Traces {
						if bytes.Equal(ca.From, a.From) && bytes.Equal(ca.To, a.To) && ca.Value.Eq(&a.Value) {
							found = true
						}
					}
					if !found {
						return fmt.Sprintf("block %d tx %d: a trace action of another transaction", n, uint64(t.Idx))
					}
				}
			}
		}
	}
	return "ok"
}

// sortLogs canonicalises a digest for comparisons ACROSS requests: the order in which logs were
// attached to a transaction is not part of what a request returns (Logs.Add keeps the first-seen
// order, and items of an earlier, partly processed response stay attached to the cached block)
func sortLogs(d string) string {
	if !strings.HasPrefix(d, "ok ") {
		return d
	}
	blocks := strings.Split(d[3:], "|")
	for i, b := range blocks {
		parts := strings.Split(b, "/")
		if len(parts) != 4 {
			continue
		}
		txs := strings.Split(parts[3], ",")
		for j, t := range txs {
			f := strings.Split(t, ":")
			if len(f) == 3 {
				ls := strings.Split(f[1], ".")
				sort.Slice(ls, func(a, b int) bool { return len(ls[a]) < len(ls[b]) || (len(ls[a]) == len(ls[b]) && ls[a] < ls[b]) })
				f[1] = strings.Join(ls, ".")
				txs[j] = strings.Join(f, ":")
			}
		}
		parts[3] = strings.Join(txs, ",")
		blocks[i] = strings.Join(parts, "/")
	}
	return "ok " + strings.Join(blocks, "|")
}

type corruption struct {
	name  string
	apply func(ex *simnode.Exchange, i int, r *core.Rand) bool // returns false when not applicable
}

func resultArr(r map[string]any) []any { a, _ := r["result"].([]any); return a }
func resultMap(r map[string]any) map[string]any {
	m, _ := r["result"].(map[string]any)
	return m
}

var otherHash = "0x" + strings.Repeat("ab", 32)

var corruptions = []corruption{
	{"error-member", func(ex *simnode.Exchange, i int, r *core.Rand) bool {
		if i >= len(ex.Responses) {
			return false
		}
		delete(ex.Responses[i], "result")
		ex.Responses[i]["error"] = map[string]any{"code": -32000, "message": "boom"}
		return true
	}},
	{"error-member-positive-code", func(ex *simnode.Exchange, i int, r *core.Rand) bool {
		// an error object whose code is positive (geth's 3 "execution reverted", a provider's 429 inside a 200 reply)
		if i >= len(ex.Responses) {
			return false
		}
		delete(ex.Responses[i], "result")
		ex.Responses[i]["error"] = map[string]any{"code": core.Pick(r, []int{3, 429, 1}), "message": "boom"}
		return true
	}},
	{"error-member-next-to-result", func(ex *simnode.Exchange, i int, r *core.Rand) bool {
		// "add an error member": the element keeps its result and ALSO carries an error object
		if i >= len(ex.Responses) {
			return false
		}
		ex.Responses[i]["error"] = map[string]any{"code": core.Pick(r, []int{3, 429, -32000, -1, 1, -32603}), "message": "boom"}
		return true
	}},
	{"reorder-items", func(ex *simnode.Exchange, i int, r *core.Rand) bool {
		// the items of ONE result (receipts of a block, logs of a range, traces of a block) arrive in
		// another order; each still names its block and transaction
		if i >= len(ex.Responses) {
			return false
		}
		arr := resultArr(ex.Responses[i])
		if len(arr) < 2 {
			return false
		}
		if _, ok := arr[0].(map[string]any); !ok {
			return false
		}
		out := make([]any, len(arr))
		switch r.Intn(3) {
		case 0:
			for k := range arr {
				out[len(arr)-1-k] = arr[k]
			}
		case 1:
			copy(out, arr[1:])
			out[len(arr)-1] = arr[0]
		default: // interleaved: the items of one transaction are no longer next to each other
			out = out[:0]
			for k := 0; k < len(arr); k += 2 {
				out = append(out, arr[k])
			}
			for k := 1; k < len(arr); k += 2 {
				out = append(out, arr[k])
			}
		}
		ex.Responses[i]["result"] = out
		return true
	}},
	{"null-result", func(ex *simnode.Exchange, i int, r *core.Rand) bool {
		if i >= len(ex.Responses) {
			return false
		}
		ex.Responses[i]["result"] = nil
		return true
	}},
	{"drop-element", func(ex *simnode.Exchange, i int, r *core.Rand) bool {
		if !ex.Batch || i >= len(ex.Responses) {
			return false
		}
		ex.Responses = append(ex.Responses[:i:i], ex.Responses[i+1:]...)
		return true
	}},
	{"duplicate-element", func(ex *simnode.Exchange, i int, r *core.Rand) bool {
		if !ex.Batch || len(ex.Responses) < 2 || i >= len(ex.Responses) {
			return false
		}
		j := (i + 1) % len(ex.Responses)
		cp := map[string]any{}
		for k, v := range ex.Responses[i] {
			cp[k] = v
		}
		ex.Responses[j] = cp
		return true
	}},
	{"swap-elements", func(ex *simnode.Exchange, i int, r *core.Rand) bool {
		if !ex.Batch || len(ex.Responses) < 2 || i+1 >= len(ex.Responses) {
			return false
		}
		ex.Responses[i], ex.Responses[i+1] = ex.Responses[i+1], ex.Responses[i]
		return true
	}},
	{"renumber-block", func(ex *simnode.Exchange, i int, r *core.Rand) bool {
		if i >= len(ex.Responses) || ex.Requests[0].Method != "eth_getBlockByNumber" {
			return false
		}
		m := resultMap(ex.Responses[i])
		if m == nil {
			return false
		}
		m["number"] = simnode.HexU(hexn(m["number"]) + uint64(1+r.Intn(90)))
		return true
	}},
	{"break-parent", func(ex *simnode.Exchange, i int, r *core.Rand) bool {
		if i == 0 || i >= len(ex.Responses) || ex.Requests[0].Method != "eth_getBlockByNumber" || len(ex.Requests) == 2 && ex.Requests[1].Method == "eth_getLogs" {
			return false
		}
		m := resultMap(ex.Responses[i])
		if m == nil {
			return false
		}
		m["parentHash"] = otherHash
		return true
	}},
	{"break-parent-odd-length", func(ex *simnode.Exchange, i int, r *core.Rand) bool {
		// the parent hash of a block, or the hash of the block before it, is NOT 32 bytes long (and so does not
		// link): 31 bytes, an address-sized 20, 33, or empty
		if i == 0 || i >= len(ex.Responses) || ex.Requests[0].Method != "eth_getBlockByNumber" || len(ex.Requests) == 2 && ex.Requests[1].Method == "eth_getLogs" {
			return false
		}
		m := resultMap(ex.Responses[i])
		prev := resultMap(ex.Responses[i-1])
		if m == nil || prev == nil {
			return false
		}
		odd := "0x" + strings.Repeat("cd", core.Pick(r, []int{31, 20, 33, 0, 1}))
		if r.Bool() {
			m["parentHash"] = odd
		} else {
			prev["hash"] = odd
		}
		return true
	}},
	{"header-of-other-fork", func(ex *simnode.Exchange, i int, r *core.Rand) bool {
		// the header that accompanies the logs batch carries another hash
		if !(len(ex.Requests) == 2 && ex.Requests[1].Method == "eth_getLogs") || i != 0 {
			return false
		}
		m := resultMap(ex.Responses[0])
		if m == nil {
			return false
		}
		m["hash"] = otherHash
		return true
	}},
	{"item-other-block-number", func(ex *simnode.Exchange, i int, r *core.Rand) bool {
		if i >= len(ex.Responses) {
			return false
		}
		arr := resultArr(ex.Responses[i])
		if len(arr) == 0 {
			return false
		}
		m, ok := arr[r.Intn(len(arr))].(map[string]any)
		if !ok {
			return false
		}
		delta := uint64(core.Pick(r, []int{1, 2, 7, 50}))
		switch v := m["blockNumber"].(type) {
		case string:
			n := hexn(v)
			if r.Bool() && n >= delta {
				m["blockNumber"] = simnode.HexU(n - delta)
			} else {
				m["blockNumber"] = simnode.HexU(n + delta)
			}
		default:
			m["blockNumber"] = numAny(v) + delta
		}
		return true
	}},
	{"number-beyond-64-bits", func(ex *simnode.Exchange, i int, r *core.Rand) bool {
		// a block number (of the header, or of an item) that is the right number PLUS a multiple of 2^64:
		// read modulo 2^64 it would pass every range check
		if i >= len(ex.Responses) {
			return false
		}
		wide := func(v any) (string, bool) {
			s, ok := v.(string)
			if !ok || !strings.HasPrefix(s, "0x") {
				return "", false
			}
			return fmt.Sprintf("0x%x%016x", 1+r.Intn(15), hexn(s)), true
		}
		if m := resultMap(ex.Responses[i]); m != nil {
			if w, ok := wide(m["number"]); ok {
				m["number"] = w
				return true
			}
			return false
		}
		arr := resultArr(ex.Responses[i])
		if len(arr) == 0 {
			return false
		}
		m, ok := arr[r.Intn(len(arr))].(map[string]any)
		if !ok {
			return false
		}
		if w, ok := wide(m["blockNumber"]); ok {
			m["blockNumber"] = w
			return true
		}
		return false
	}},
	{"quantity-non-hex", func(ex *simnode.Exchange, i int, r *core.Rand) bool {
		// a QUANTITY the client reads (the header's number; a log's block number, transaction index, log index) with a
		// character that is no hex digit: "0x1g", "0x1 ", "0x-3"
		if i >= len(ex.Responses) || i >= len(ex.Requests) {
			return false
		}
		spoil := func(s string) string {
			switch r.Intn(3) {
			case 0:
				return s + core.Pick(r, []string{"g", " ", "z"})
			case 1:
				return "0x-" + s[2:]
			}
			b := []byte(s)
			b[2+r.Intn(len(b)-2)] = core.Pick(r, []byte("gG x"))
			return string(b)
		}
		switch ex.Requests[i].Method {
		case "eth_getBlockByNumber":
			m := resultMap(ex.Responses[i])
			if m == nil {
				return false
			}
			if s, ok := m["number"].(string); ok && len(s) > 2 {
				m["number"] = spoil(s)
				return true
			}
		case "eth_getLogs":
			arr := resultArr(ex.Responses[i])
			if len(arr) == 0 {
				return false
			}
			m, ok := arr[r.Intn(len(arr))].(map[string]any)
			if !ok {
				return false
			}
			k := core.Pick(r, []string{"blockNumber", "transactionIndex", "logIndex"})
			if s, ok := m[k].(string); ok && len(s) > 2 {
				m[k] = spoil(s)
				return true
			}
		}
		return false
	}},
	{"non-hex-character", func(ex *simnode.Exchange, i int, r *core.Rand) bool {
		// a payload hex string (log data, a topic, transaction input, an address) with one character that is no hex digit
		if i >= len(ex.Responses) {
			return false
		}
		var cands []func(string)
		var vals []string
		var visit func(v any)
		visit = func(v any) {
			switch x := v.(type) {
			case map[string]any:
				for k, y := range x {
					if s, ok := y.(string); ok && len(s) > 4 && strings.HasPrefix(s, "0x") && (k == "data" || k == "input" || k == "address") {
						k, x := k, x
						cands = append(cands, func(n string) { x[k] = n })
						vals = append(vals, s)
					}
					if arr, ok := y.([]any); ok && k == "topics" {
						for ti, t := range arr {
							if s, ok := t.(string); ok && len(s) > 4 {
								ti, arr := ti, arr
								cands = append(cands, func(n string) { arr[ti] = n })
								vals = append(vals, s)
							}
						}
					}
					visit(y)
				}
			case []any:
				for _, y := range x {
					visit(y)
				}
			}
		}
		visit(map[string]any(ex.Responses[i]))
		if len(cands) == 0 {
			return false
		}
		k := r.Intn(len(cands))
		b := []byte(vals[k])
		b[2+r.Intn(len(b)-2)] = core.Pick(r, []byte("zgZ x"))
		cands[k](string(b))
		return true
	}},
	{"item-other-block-hash", func(ex *simnode.Exchange, i int, r *core.Rand) bool {
		if i >= len(ex.Responses) {
			return false
		}
		arr := resultArr(ex.Responses[i])
		if len(arr) < 2 {
			// a lone item that names another hash contradicts nothing when the plan fetches no header: it IS
			// the block's only witness (a consistently different answer, not an inconsistent one)
			return false
		}
		m, ok := arr[0].(map[string]any)
		if !ok {
			return false
		}
		m["blockHash"] = otherHash
		return true
	}},
	{"status-500", func(ex *simnode.Exchange, i int, r *core.Rand) bool {
		if i != 0 {
			return false
		}
		ex.Status = 500
		return true
	}},
	{"truncated-body", func(ex *simnode.Exchange, i int, r *core.Rand) bool {
		if i != 0 {
			return false
		}
		ex.RawBody = []byte(`[{"jsonrpc":"2.0","id":1,"result":{"number":"0x`)
		return true
	}},
	{"drop-connection", func(ex *simnode.Exchange, i int, r *core.Rand) bool {
		if i != 0 {
			return false
		}
		ex.Drop = true
		return true
	}},
}

func runC07(e *core.Env) error {
	r := e.Rand
	chain := simnode.NewChain(9, simnode.GenOpts{Salt: 3 + e.Seed%5, TxsPerBlock: func(num uint64) int {
		if num%4 == 1 || num%4 == 2 { // neighbouring single-transaction blocks: items that differ in the block only
			return 1
		}
		return 2
	}})
	node := simnode.NewNode(chain)
	defer node.Close()
	url := node.URL() + "/nocache"
	ctx := context.Background()
	fieldSets := [][]string{{"block_time"}, {"tx_input"}, {"log_idx"}, {"block_time", "log_idx"}, {"tx_input", "log_idx"}, {"tx_status"},
		{"tx_status", "block_time"}, {"tx_status", "tx_input"}, {"trace_action_from"}, {"trace_action_from", "tx_input"}, {"trace_action_from", "tx_status"},
		{"trace_action_from", "log_idx", "block_time"}, {"block_num"}}
	planStr := func(f *glf.Filter) string {
		s := ""
		if f.UseBlocks {
			s += "b"
		}
		if f.UseHeaders {
			s += "h"
		}
		if f.UseReceipts {
			s += "r"
		}
		if f.UseLogs {
			s += "l"
		}
		if f.UseTraces {
			s += "t"
		}
		if s == "" {
			s = "-"
		}
		return s
	}
	var lastClient *jrpc2.Client
	var lastBlocks []eth.Block
	runOn := func(cl *jrpc2.Client, flt *glf.Filter, start, limit uint64) string {
		var bs []eth.Block
		return core.Protect(func() string {
			var err error
			bs, err = cl.Get(ctx, url, flt, start, limit)
			if err != nil {
				return "err"
			}
			return "ok " + blocksDigest(bs)
		})
	}
	run := func(flt *glf.Filter, start, limit uint64) (string, []simnode.Exchange) {
		node.ResetLog()
		cl := jrpc2.New(node.URL()) // a fresh client with its caches ON (the first request is a miss; retries may hit)
		lastClient = cl
		var bs []eth.Block
		out := core.Protect(func() string {
			var err error
			bs, err = cl.Get(ctx, url, flt, start, limit)
			if err != nil {
				return "err"
			}
			lastBlocks = bs
			return "ok " + blocksDigest(bs)
		})
		return out, node.Log()
	}
	for _, fs := range fieldSets {
		flt := glf.New(fs, nil, nil)
		plan := planStr(flt)
		for start := uint64(1); start <= 3; start++ {
			for limit := uint64(1); limit <= uint64(e.N(3, 4)); limit++ {
				node.SetAfter(nil)
				honest, exs := run(flt, start, limit)
				var hx []string
				for _, ex := range exs {
					hx = append(hx, absExchange(ex))
				}
				e.Add(core.Case{Op: fmt.Sprintf("rpcget %s %d %d %s", plan, start, limit, strings.Join(hx, " ")), Impl: honest, Nontrivial: true,
					Tags: []string{"honest", "plan=" + plan}})
				if !strings.HasPrefix(honest, "ok") {
					e.Add(core.Case{Impl: honest, Spec: "ok", Key: fmt.Sprintf("c07-honest %s %d %d", plan, start, limit), Tags: []string{"honest-fails"}})
					continue
				}
				e.Add(core.Case{Impl: contentCheck(lastBlocks, chain, flt), Spec: "ok", Key: fmt.Sprintf("c07-content %s %d %d", plan, start, limit), Nontrivial: true, Tags: []string{"content-of-accepted-reply", "class=honest"}})
				nEx := len(exs)
				try := func(xi int, ci []int, el []int, tag string) {
					n := 0
					changed := false
					rr := r.Fork()
					node.SetAfter(func(ex *simnode.Exchange) {
						for k := range ci {
							if n == xi+k*0 && k == 0 || (k == 1 && n == (xi+1)%nEx) {
								if corruptions[ci[k]].apply(ex, el[k], rr) {
									changed = true
								}
							}
						}
						n++
					})
					impl, exs2 := run(flt, start, limit)
					cl := lastClient
					if changed {
						// the ordinary retry on the SAME client (its caches included): first with the source
						// still answering the same way, then with the source healthy again. Each attempt must
						// fail or return the source's honest data - a rejected response is never served later.
						n = 0
						again := runOn(cl, flt, start, limit)
						node.SetAfter(nil)
						healed := runOn(cl, flt, start, limit)
						for i, v := range []string{again, healed} {
							if v == "err" {
								v = honest
							}
							e.Add(core.Case{Impl: sortLogs(v), Spec: sortLogs(honest), Key: fmt.Sprintf("c07-retry%d %s %d %d %d %v %v", i, plan, start, limit, xi, ci, el), Tags: []string{"retry-same-client", "first:" + strings.SplitN(impl, " ", 2)[0]},
								Detail: map[string]any{"plan": plan, "start": start, "limit": limit, "exchange": xi, "class": tag, "element": el, "attempt": []string{"first", "again-while-corrupt", "after-source-healed"}[i+1], "first_attempt": strings.SplitN(impl, " ", 2)[0]}})
						}
					}
					node.SetAfter(nil)
					if !changed {
						return
					}
					var ax []string
					for _, ex := range exs2 {
						ax = append(ax, absExchange(ex))
					}
					verdict := impl
					if impl == "err" {
						verdict = honest // an error is always acceptable
					}
					want := honest
					if tag == "double" {
						verdict, want = sortLogs(verdict), sortLogs(honest)
					}
					if tag == "non-hex-character" || tag == "quantity-non-hex" {
						verdict, want = impl, "err" // an undecodable value is refused, not zero-filled or truncated
					}
					if tag == "number-beyond-64-bits" {
						// a number that is not the requested one (it differs by a multiple of 2^64) must be refused,
						// not read modulo 2^64
						verdict, want = impl, "err"
					}
					if tag == "reorder-items" {
						// the items are the node's own, only their order differs: the order in which logs end up
						// attached is not part of the result; WHERE each item sits and what it carries is
						verdict, want = sortLogs(verdict), sortLogs(honest)
						if impl != "err" {
							e.Add(core.Case{Impl: contentCheck(lastBlocks, chain, flt), Spec: "ok", Key: fmt.Sprintf("c07-content %s %d %d %d %v", plan, start, limit, xi, el), Nontrivial: true, Tags: []string{"content-of-accepted-reply", "class=" + tag},
								Detail: map[string]any{"plan": plan, "start": start, "limit": limit, "exchange": xi, "class": tag, "element": el}})
						}
					}
					e.Add(core.Case{Op: fmt.Sprintf("rpcget %s %d %d %s", plan, start, limit, strings.Join(ax, " ")), Impl: impl, Nontrivial: true,
						Tags: []string{"corrupt", "plan=" + plan, "class=" + tag, "impl:" + strings.SplitN(impl, " ", 2)[0]},
						Key:  fmt.Sprintf("c07 %s %d %d %d %v %v", plan, start, limit, xi, ci, el)})
					e.Add(core.Case{Impl: verdict, Spec: want, Key: fmt.Sprintf("c07-o %s %d %d %d %v %v", plan, start, limit, xi, ci, el), Tags: []string{"acceptable-check"},
						Detail: map[string]any{"plan": plan, "start": start, "limit": limit, "exchange": xi, "class": tag, "element": el, "exchanges_sent": ax}})
				}
				for xi := 0; xi < nEx; xi++ {
					for ci := range corruptions {
						for el := 0; el < int(limit)+1 && el < 5; el++ {
							try(xi, []int{ci}, []int{el}, corruptions[ci].name)
						}
					}
				}
				for k := 0; k < e.N(3, 25); k++ { // random double corruptions
					try(r.Intn(nEx), []int{r.Intn(len(corruptions)), r.Intn(len(corruptions))}, []int{r.Intn(3), r.Intn(3)}, "double")
				}
			}
		}
	}
	// ---- an ACCEPTED reply attaches every log to the block and transaction it names - also when the block
	// comes from the cache and already carries logs another request attached (two filters on one
	// source; the later request's log has the LOWER index within the transaction). Expected sets are
	// computed from the node's chain.
	{
		addrA, addrB := simnode.Derive("c07A")[:20], simnode.Derive("c07B")[:20]
		ch := simnode.NewChain(5, simnode.GenOpts{Salt: 91 + e.Seed%3, MakeTx: func(salt, num, idx uint64, tx *simnode.Tx) {
			simnode.DefaultMakeTx(salt, num, idx, tx)
			tx.Logs = nil
			for j := uint64(0); j < 4; j++ {
				a := addrA
				if j%2 == 1 {
					a = addrB
				}
				tx.Logs = append(tx.Logs, simnode.Log{Idx: 4*idx + j, Addr: a, Topics: [][]byte{simnode.Derive("t", salt, num, idx, j)}, Data: simnode.Derive("d", salt, num, idx, j)})
			}
		}})
		nd := simnode.NewNode(ch)
		for _, order := range [][][]byte{{addrA, addrB}, {addrB, addrA}, {addrB, addrA, addrB}} {
			for _, fields := range [][]string{{"block_time", "log_idx"}, {"tx_input", "log_idx"}, {"log_idx"}} {
				cl := jrpc2.New(nd.URL()).WithMaxReads(10).WithPollDuration(time.Hour)
				verdict := "ok"
				for _, a := range order {
					flt := glf.New(fields, []string{fmt.Sprintf("0x%x", a)}, nil)
					bs, err := cl.Get(ctx, nd.URL(), flt, 1, 3)
					if err != nil {
						verdict = "unexpected error: " + err.Error()
						break
					}
					got := map[string]bool{}
					for i := range bs {
						for j := range bs[i].Txs {
							for _, l := range bs[i].Txs[j].Logs {
								if bytes.Equal(l.Address, a) {
									got[fmt.Sprintf("%d/%d/%d", bs[i].Num(), uint64(bs[i].Txs[j].Idx), uint64(l.Idx))] = true
								}
							}
						}
					}
					for n := 1; n <= 3; n++ {
						for _, tx := range ch.Blocks[n].Txs {
							for _, l := range tx.Logs {
								k := fmt.Sprintf("%d/%d/%d", n, tx.Idx, l.Idx)
								if bytes.Equal(l.Addr, a) && !got[k] && verdict == "ok" {
									verdict = fmt.Sprintf("accepted reply for address %x: log %s (block/tx/index) is not attached", a, k)
								}
							}
						}
					}
				}
				e.Add(core.Case{Impl: verdict, Spec: "ok", Key: fmt.Sprintf("c07-attach-all %x %v", order, fields), Nontrivial: true, Tags: []string{"attach-all-logs-on-cached-blocks"}})
			}
		}
		nd.Close()
	}
	// Latest / Hash on null, error, failure
	byName := func(name string) int {
		for i := range corruptions {
			if corruptions[i].name == name {
				return i
			}
		}
		panic("no corruption class " + name)
	}
	for _, cn := range []string{"error-member", "error-member-positive-code", "error-member-next-to-result", "null-result", "status-500", "truncated-body", "drop-connection"} {
		c := byName(cn)
		for _, which := range []string{"latest", "hash"} {
			node.SetAfter(func(ex *simnode.Exchange) { corruptions[c].apply(ex, 0, r) })
			cl := jrpc2.New(url)
			out := core.Protect(func() string {
				var err error
				if which == "latest" {
					_, _, err = cl.Latest(ctx, url, 0)
				} else {
					_, err = cl.Hash(ctx, url, 3)
				}
				if err != nil {
					return "err"
				}
				return "ok"
			})
			node.SetAfter(nil)
			e.Add(core.Case{Impl: out, Spec: "err", Key: fmt.Sprintf("c07-%s-%s", which, corruptions[c].name), Nontrivial: true, Tags: []string{which, "class=" + corruptions[c].name}})
		}
	}
	// Hash beyond the head: a null result is an error, not a crash
	cl := jrpc2.New(url)
	out := core.Protect(func() string {
		if _, err := cl.Hash(ctx, url, 500); err != nil {
			return "err"
		}
		return "ok"
	})
	e.Add(core.Case{Impl: out, Spec: "err", Key: "c07-hash-beyond-head", Nontrivial: true, Tags: []string{"hash", "beyond-head"}})
	return nil
}
