package props

import (
	"bytes"
	"context"
	"encoding/hex"
	"fmt"
	"github.com/indexsupply/shovel/shovel/glf"
	"io"
	"log/slog"
	"net"
	"os"
	"regexp"
	"sort"
	"strings"
	"sync"
	"time"

	"github.com/indexsupply/shovel/jrpc2"
	"github.com/indexsupply/shovel/shovel"
	"github.com/indexsupply/shovel/shovel/config"
	"github.com/indexsupply/shovel/wslog"
	"github.com/jackc/pgx/v5/pgxpool"

	"verifharness/core"
	"verifharness/fakepg"
	"verifharness/simnode"
)

func init() {
	Registry["C18"] = runC18
	Rules["C18"] = "the REAL pipeline under the Go race detector (harness built with -race): (A) one task with concurrency 2..8 (partitioned loading) stepping through a growing chain on a caching client; (B) 3-4 tasks with different data plans and address filters on ONE caching client, stepped concurrently from separate goroutines over overlapping ranges while another goroutine grows and reorgs the chain; (C) the background head poller running at 2 ms against concurrent Latest calls; (D) the Manager with restarts while tasks run. Every race report is a case: its two access sites are mapped to (function, function); a report outside the recorded finding classes is a violation with the report as replay. non-trivial = a scenario that ran concurrent steps; distinct by scenario / report signature"
}

var raceFrame = regexp.MustCompile(`(?m)^  ((?:github\.com/indexsupply/shovel|verifharness)\S*?)\(\)\s*$`)

// parse the race detector's log: one signature per report = the first shovel frame of each of the two stacks
func raceSignatures(log string) map[string]string {
	out := map[string]string{}
	for _, rep := range strings.Split(log, "==================") {
		if !strings.Contains(rep, "DATA RACE") {
			continue
		}
		parts := raceAccess.Split(rep, -1)
		var sites []string
		for _, p := range parts[1:] {
			if i := strings.Index(p, "\n\n"); i >= 0 {
				p = p[:i]
			}
			m := raceFrame.FindStringSubmatch(p)
			if m != nil {
				f := m[1]
				f = strings.TrimPrefix(f, "github.com/indexsupply/shovel/")
				sites = append(sites, f)
			}
		}
		sort.Strings(sites)
		sig := strings.Join(sites, " <-> ")
		if sig == "" {
			sig = "unattributed"
		}
		if _, ok := out[sig]; !ok {
			out[sig] = rep
		}
	}
	return out
}

// known-finding class for race reports: C18.shared_cached_blocks = the FETCH/ATTACH side of a shared
// cached block (Client.logs / receipts / traces: decoding a response whose byte slices are then
// attached, or attaching under the block's lock) against an access OUTSIDE those functions that does
// not take the block's lock (a task reading the block it was handed). Decided on the two complete
// stacks of the report: exactly one of them runs inside an attach function. Two attach-side accesses
// racing with each other (a removed lock), and any race with no attach side at all (head cache,
// segment cache, partition goroutines, manager), are NOT in the class.
var raceAccess = regexp.MustCompile(`(?m)^(?:Previous )?(?:[Rr]ead|[Ww]rite|atomic [a-z]+) (?:at|by) .*$`)

func raceClass(sig, rep string) string {
	parts := raceAccess.Split(rep, -1)
	if len(parts) < 3 {
		return ""
	}
	attach := func(stack string) bool {
		if i := strings.Index(stack, "\n\n"); i >= 0 {
			stack = stack[:i]
		}
		for _, f := range []string{"jrpc2.(*Client).logs(", "jrpc2.(*Client).receipts(", "jrpc2.(*Client).traces("} {
			if strings.Contains(stack, f) {
				return true
			}
		}
		return false
	}
	if attach(parts[1]) != attach(parts[2]) {
		return "C18.shared_cached_blocks"
	}
	return ""
}

// (E) the shape the program itself runs: ONE declaration listed on TWO sources, tasks built by the
// real loadTasks inside the real Manager (one decoder per task is loadTasks' job), source concurrency 2,
// both chains carrying Transfer logs whose data is decoded, verbose logging on
func twoSourceManager(ctx context.Context, rr *core.Rand, s int) string {
	pg := fakepg.New()
	url, _ := pg.Start()
	cfgp, _ := pgxpool.ParseConfig(url)
	cfgp.MaxConns = 12
	pool, err := pgxpool.NewWithConfig(ctx, cfgp)
	if err != nil {
		return "setup: " + err.Error()
	}
	n1 := simnode.NewNode(transferChain(30, uint64(300+s)))
	n2 := simnode.NewNode(transferChain(30, uint64(700+s)))
	defer func() {
		n1.Close()
		n2.Close()
		go pool.Close()
		pg.Close()
	}()
	ig := transferIG("igtwo", "ttwo", []string{"block_time"}, nil)
	ig.Sources = []config.Source{{Name: "sa", Start: 1}, {Name: "sb", Start: 1}}
	// a second declaration planned with eth_getLogs only: no header segment cache in front of its partitions
	igl := transferIG("iglogs", "tlogs", nil, nil)
	igl.Sources = []config.Source{{Name: "sa", Start: 1}, {Name: "sb", Start: 1}}
	conf := config.Root{
		Sources: []config.Source{
			{Name: "sa", ChainID: 1, URLs: []string{n1.URL()}, PollDuration: 3 * time.Millisecond, BatchSize: 8, Concurrency: 4},
			{Name: "sb", ChainID: 2, URLs: []string{n2.URL()}, PollDuration: 3 * time.Millisecond, BatchSize: 8, Concurrency: 4}},
		Integrations: []config.Integration{ig, igl},
	}
	if err := config.ValidateFix(&conf); err != nil {
		return "setup: " + err.Error()
	}
	conn, _ := pool.Acquire(ctx)
	if err := config.Migrate(ctx, conn, conf); err != nil {
		conn.Release()
		return "setup: " + err.Error()
	}
	conn.Release()
	mgr := shovel.NewManager(ctx, pool, conf)
	go func() {
		for {
			mgr.Updates()
		}
	}()
	ec := make(chan error)
	go mgr.Run(ec)
	if err := <-ec; err != nil {
		return "first run: " + err.Error()
	}
	settled := false
	deadline := time.Now().Add(8 * time.Second)
	for time.Now().Before(deadline) {
		done := 0
		for _, row := range pg.Rows("shovel.task_updates") {
			if fmt.Sprint(row["num"]) == "29" {
				done++
			}
		}
		if done >= 4 {
			settled = true
			break
		}
		time.Sleep(10 * time.Millisecond)
	}
	time.Sleep(50 * time.Millisecond)
	// every row is stamped with the pair that produced it: per (source, integration) as many rows as that
	// source's chain has Transfer logs in blocks 1..29 (the two chains are different chains)
	count := func(n *simnode.Node) int {
		k := 0
		n.With(func(c *simnode.Chain) {
			for _, b := range c.Blocks[1:] {
				for _, t := range b.Txs {
					for _, l := range t.Logs {
						if len(l.Topics) == 3 && bytes.Equal(l.Topics[0], transferEvent.SignatureHash()) {
							k++
						}
					}
				}
			}
		})
		return k
	}
	want := map[string]int{"sa/igtwo": count(n1), "sb/igtwo": count(n2), "sa/iglogs": count(n1), "sb/iglogs": count(n2)}
	got := map[string]int{}
	for _, tb := range []string{"ttwo", "tlogs"} {
		for _, r := range pg.Rows(tb) {
			got[fmt.Sprint(r["src_name"])+"/"+fmt.Sprint(r["ig_name"])]++
		}
	}
	for k, w := range want {
		// (not settled - a busy machine, or tasks that can no longer make progress: only "too many" can be judged)
		if got[k] > w || (settled && got[k] != w) {
			return fmt.Sprintf("rows stamped %s: %d, that pair's chain yields %d (all stamps: %v)", k, got[k], w, got)
		}
	}
	for k := range got {
		if _, ok := want[k]; !ok {
			return fmt.Sprintf("rows stamped with a pair that does not exist: %s (%v)", k, got)
		}
	}
	// ... and every row comes from the chain of the source it is stamped with (block number + sender)
	froms := func(n *simnode.Node) map[string]bool {
		m := map[string]bool{}
		n.With(func(c *simnode.Chain) {
			for _, b := range c.Blocks {
				for _, t := range b.Txs {
					for _, l := range t.Logs {
						if len(l.Topics) == 3 && bytes.Equal(l.Topics[0], transferEvent.SignatureHash()) {
							m[fmt.Sprintf("%d/%x", b.Num, l.Topics[1][12:])] = true
						}
					}
				}
			}
		})
		return m
	}
	bySrc := map[string]map[string]bool{"sa": froms(n1), "sb": froms(n2)}
	for _, tb := range []string{"ttwo", "tlogs"} {
		for _, r := range pg.Rows(tb) {
			src := fmt.Sprint(r["src_name"])
			key := fmt.Sprintf("%v/%x", r["block_num"], r["ev_from"])
			if set, ok := bySrc[src]; ok && !set[key] {
				return fmt.Sprintf("table %s: a row stamped %s/%v (block %v, sender %x) does not come from that source's chain", tb, src, r["ig_name"], r["block_num"], r["ev_from"])
			}
		}
	}
	return "ok"
}

func runC18(e *core.Env) error {
	r := e.Rand
	ctx := context.Background()
	// verbose logging, as with `shovel -v`: the log calls format their attributes (Filter.String() and the like)
	slog.SetDefault(slog.New(wslog.New(io.Discard, &slog.HandlerOptions{Level: slog.LevelDebug})))
	defer slog.SetDefault(slog.New(slog.NewTextHandler(io.Discard, &slog.HandlerOptions{Level: slog.LevelError})))
	logPath := os.Getenv("VERIF_RACE_LOG")
	concurrentSteps := 0
	for s := 0; s < e.N(6, 60) && !e.OverBudget(); s++ {
		rr := r.Fork()
		chain := transferChain(6, uint64(1+rr.Intn(1000)))
		w, err := newWorld(e, chain)
		if err != nil {
			return err
		}
		w.client = jrpc2.New(w.node.URL()).WithMaxReads(1 + rr.Intn(4)).WithPollDuration(2 * time.Millisecond) // caching + live poller
		nIG := 3 + rr.Intn(2)
		plans := [][]string{{"block_time"}, {"block_time", "log_addr"}, {}, {"block_time", "tx_status"}, {"block_time", "tx_input"}} // {}: logs only — no header segment cache in front of the partitions
		var igs []config.Integration
		for i := 0; i < nIG; i++ {
			igs = append(igs, transferIG(fmt.Sprintf("ig%d", i+1), fmt.Sprintf("t%d", i+1), plans[i%len(plans)], nil))
		}
		root := config.Root{Integrations: igs}
		if err := w.setupRoot(&root); err != nil {
			w.close()
			return err
		}
		var tasks []*wTask
		for i := range root.Integrations {
			conc := 2 + rr.Intn(7)
			t, err := w.addTask(fmt.Sprintf("t%d", i+1), root.Integrations[i], "src1", 1, 0, conc+rr.Intn(4), conc)
			if err != nil {
				w.close()
				return err
			}
			tasks = append(tasks, t)
			if i == 0 {
				// the SAME integration also runs on a second source (one declaration, two tasks): each
				// task decodes with its own buffers
				t2, err := w.addTask(fmt.Sprintf("t%db", i+1), root.Integrations[i], "src2", 1, 0, conc+rr.Intn(4), conc)
				if err != nil {
					w.close()
					return err
				}
				tasks = append(tasks, t2)
			}
		}
		// (B) all tasks step concurrently while the chain moves
		var wg sync.WaitGroup
		stop := make(chan struct{})
		wg.Add(1)
		go func() {
			defer wg.Done()
			k := 0
			for {
				select {
				case <-stop:
					return
				default:
				}
				k++
				w.node.With(func(c *simnode.Chain) {
					if k%5 == 4 && len(c.Blocks) > 4 {
						c.Reorg(1, 2, simnode.GenOpts{Salt: uint64(5000 + k), MakeTx: transferMakeTx})
					} else {
						c.Grow(1, simnode.GenOpts{Salt: uint64(4000 + k), MakeTx: transferMakeTx})
					}
				})
				time.Sleep(time.Millisecond)
			}
		}()
		var sw sync.WaitGroup
		for _, t := range tasks {
			t := t
			sw.Add(1)
			go func() {
				defer sw.Done()
				for k := 0; k < 12; k++ {
					core.Protect(func() string { t.task.Converge(); return "" })
				}
			}()
		}
		sw.Wait()
		close(stop)
		wg.Wait()
		concurrentSteps += 12 * len(tasks)
		w.close()
	}
	// (E) one declaration on two sources through the real Manager / loadTasks
	for s := 0; s < e.N(8, 24); s++ {
		out := twoSourceManager(ctx, r.Fork(), s)
		e.Add(core.Case{Impl: out, Spec: "ok", Key: fmt.Sprintf("c18-two-sources %d", s), Nontrivial: true, Tags: []string{"scenarios", "one-declaration-two-sources-through-loadTasks"}})
	}
	// (F) what Task.load does on the FIRST step of every task: one fresh data plan (*glf.Filter) handed to all
	// partition goroutines of the step, released together, on a plan without header cache; verbose logging on
	{
		chain := transferChain(12, uint64(77+e.Seed))
		node := simnode.NewNode(chain)
		cl := jrpc2.New(node.URL()).WithMaxReads(3).WithPollDuration(time.Hour)
		for it := 0; it < e.N(60, 300); it++ {
			flt := glf.New([]string{"log_idx", "tx_idx", "block_num"}, nil, [][]string{{"0x" + hex.EncodeToString(transferEvent.SignatureHash())}})
			var wg sync.WaitGroup
			gate := make(chan struct{})
			for g := 0; g < 4; g++ {
				g := g
				wg.Add(1)
				go func() {
					defer wg.Done()
					<-gate
					core.Protect(func() string { cl.Get(ctx, node.URL(), flt, uint64(1+2*g), 2); return "" })
				}()
			}
			close(gate)
			wg.Wait()
		}
		node.Close()
		e.Add(core.Case{Impl: "ran", Spec: "ran", Key: "c18-fresh-plans", Nontrivial: true, Tags: []string{"scenarios", "fresh-plan-shared-by-partitions"}})
	}
	// (G) a source whose ws_url cannot be dialled (nothing listens there): the listener gives up with an error, the
	// next Latest starts it again — while several tasks sharing the client keep asking for the head
	{
		chain := transferChain(6, uint64(5+e.Seed))
		node := simnode.NewNode(chain)
		dead, _ := net.Listen("tcp", "127.0.0.1:0")
		deadURL := "ws://" + dead.Addr().String() + "/ws"
		dead.Close()
		cl := jrpc2.New(node.URL()).WithWSURL(deadURL).WithPollDuration(2 * time.Millisecond)
		var wg sync.WaitGroup
		stop := time.Now().Add(time.Duration(e.N(400, 1500)) * time.Millisecond)
		for g := 0; g < 4; g++ {
			wg.Add(1)
			go func() {
				defer wg.Done()
				for time.Now().Before(stop) {
					core.Protect(func() string { cl.Latest(ctx, node.URL(), 0); return "" })
					time.Sleep(time.Millisecond)
				}
			}()
		}
		wg.Wait()
		node.Close()
		e.Add(core.Case{Impl: "ran", Spec: "ran", Key: "c18-ws-unreachable", Nontrivial: true, Tags: []string{"scenarios", "ws-url-cannot-be-dialled"}})
	}
	// (D) the manager with restarts
	for s := 0; s < e.N(3, 20); s++ {
		managerScenario(ctx, r.Fork(), 1000+s)
	}
	_ = shovel.ErrDone
	_ = fakepg.NoFault
	_ = pgxpool.Config{}
	// ---- collect the race detector's reports
	time.Sleep(50 * time.Millisecond)
	var logText string
	if logPath != "" {
		matches, _ := filepathGlob(logPath + "*")
		for _, m := range matches {
			b, _ := os.ReadFile(m)
			logText += string(b)
		}
	}
	sigs := raceSignatures(logText)
	e.Note("race_detector_enabled", raceEnabled)
	e.Note("race_reports", len(sigs))
	if !raceEnabled {
		e.Add(core.Case{Impl: "harness built without -race", Spec: "harness built with -race", Key: "c18-build"})
	}
	var names []string
	for sig := range sigs {
		names = append(names, sig)
	}
	sort.Strings(names)
	for _, sig := range names {
		e.Add(core.Case{Impl: "data race: " + sig, Spec: "no data race", Class: raceClass(sig, sigs[sig]), Key: "race " + sig, Nontrivial: true,
			Tags: []string{"race-report", "class=" + raceClass(sig, sigs[sig])}, Detail: map[string]any{"report": strings.Split(sigs[sig], "\n")}})
	}
	e.Add(core.Case{Impl: fmt.Sprintf("ran %d concurrent steps", min(concurrentSteps, 1)), Spec: "ran 1 concurrent steps", Key: "c18-ran", Nontrivial: true, Tags: []string{"scenarios"}})
	e.Add(core.Case{Impl: "scenario-b", Spec: "scenario-b", Key: "c18-b", Nontrivial: true, Tags: []string{"scenarios"}})
	return nil
}
