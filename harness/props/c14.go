package props

import (
	"bytes"
	"context"
	"fmt"
	"strings"
	"sync"
	"time"

	"github.com/indexsupply/shovel/dig"
	"github.com/indexsupply/shovel/eth"
	"github.com/indexsupply/shovel/jrpc2"
	"github.com/indexsupply/shovel/shovel/config"
	"github.com/indexsupply/shovel/shovel/glf"
	"github.com/indexsupply/shovel/wpg"

	"verifharness/core"
	"verifharness/simnode"
)

func init() {
	Registry["C14"] = runC14
	Rules["C14"] = "field sets: every singleton and every pair of the 28 field names the row builder understands (exhaustive), plus random larger sets; K: flags of the real glf.New vs the model planner over the regenerated tables; O: end to end — config.ValidateFix, dig.New, Integration.Filter, the real jrpc2.Client.Get against a simulated node whose every value is distinct and non-zero, Integration.Insert into a recording connection — every stored column must equal what the node reports for that block/tx/log/trace, in tx-, log- (with an event declaration) and trace-indexing mode. non-trivial = set contains a fetched (non-context) field; distinct by (mode, set)"
}

var transferEvent = dig.Event{Name: "Transfer", Type: "event", Inputs: []dig.Input{
	{Indexed: true, Name: "from", Type: "address", Column: "ev_from"},
	{Indexed: true, Name: "to", Type: "address", Column: "ev_to"},
	{Name: "value", Type: "uint256", Column: "ev_value"},
}}
var approvalEvent = dig.Event{Name: "Approval", Type: "event", Inputs: []dig.Input{
	{Indexed: true, Name: "owner", Type: "address", Column: "ev_owner"},
	{Indexed: true, Name: "spender", Type: "address", Column: "ev_spender"},
	{Name: "value", Type: "uint256", Column: "ev_value"},
}}
var approvalCols = []wpg.Column{{Name: "ev_owner", Type: "bytea"}, {Name: "ev_spender", Type: "bytea"}, {Name: "ev_value", Type: "numeric"}}
var transferCols = []wpg.Column{{Name: "ev_from", Type: "bytea"}, {Name: "ev_to", Type: "bytea"}, {Name: "ev_value", Type: "numeric"}}

// chain whose first log of every tx is an ERC-20 Transfer and second a decoy
func transferChain(n int, salt uint64) *simnode.Chain {
	// three transactions per block; the third emits no log at all (a plain transfer / a log-less call).
	// Blocks 2, 3 (mod 5) hold a single transaction: consecutive blocks whose logs all sit at the SAME
	// transaction index (an eth_getLogs reply then has neighbouring items that differ in the block only)
	return simnode.NewChain(n, simnode.GenOpts{Salt: salt, MakeTx: transferMakeTx, TxsPerBlock: func(num uint64) int {
		if num%5 == 2 || num%5 == 3 {
			return 1
		}
		return 3
	}})
}

func padAddr(a []byte) []byte { return append(make([]byte, 12), a...) }

func flagsOf(f *glf.Filter) string {
	var s []string
	if f.UseHeaders {
		s = append(s, "UseHeaders")
	}
	if f.UseBlocks {
		s = append(s, "UseBlocks")
	}
	if f.UseReceipts {
		s = append(s, "UseReceipts")
	}
	if f.UseLogs {
		s = append(s, "UseLogs")
	}
	if f.UseTraces {
		s = append(s, "UseTraces")
	}
	if len(s) == 0 {
		return "-"
	}
	return strings.Join(s, ",")
}

// e2eFields indexes blocks [1,3] of `node` with an integration selecting `fields` and compares
// every stored column with the node's data. Returns "ok" or a description of the first mismatch.
// e2eFilterEvery: the next whole-path runs put a filter every value passes on every selected field
var e2eFilterEvery bool

func e2eFields(node *simnode.Node, chain *simnode.Chain, mode string, fields []string) (string, map[string]any) {
	return e2eFieldsOn(nil, node, chain, mode, fields, "transfer")
}

// e2eSharedClient: several integrations of one source share ONE caching client and ask for the same
// range one after the other (what tasks of a source do): each must still store exactly the node's
// values - whatever the others fetched, cached or attached before.
func e2eSharedClient(e *core.Env, node *simnode.Node, chain *simnode.Chain) {
	type step struct {
		mode   string
		fields []string
		ev     string
	}
	seqs := [][]step{
		// two events of the same transactions; the second one's log has the LOWER index
		{{"log", []string{"block_time"}, "approval"}, {"log", []string{"block_time"}, "transfer"}},
		{{"log", []string{"block_time"}, "transfer"}, {"log", []string{"block_time"}, "approval"}, {"log", []string{"block_time"}, "transfer"}},
		// a header-level plan first, then a block-level plan on the same range (and the reverse)
		{{"log", []string{"block_time"}, "transfer"}, {"tx", []string{"tx_input", "tx_value", "block_time"}, ""}},
		{{"tx", []string{"tx_input", "block_time"}, ""}, {"log", []string{"block_time"}, "transfer"}, {"tx", []string{"tx_nonce", "tx_to"}, ""}},
		// a logs-plan integration first, then a RECEIPTS-plan integration of the other event on the same cached
		// segment (the receipts carry every log of the transaction, the earlier request attached only its own), and the reverse
		{{"log", []string{"block_time"}, "transfer"}, {"log", []string{"block_time", "tx_status"}, "approval"}},
		{{"log", []string{"block_time", "tx_status"}, "approval"}, {"log", []string{"block_time"}, "transfer"}, {"log", []string{"block_time", "tx_gas_used"}, "transfer"}},
		// receipts and traces attached twice to the same cached blocks
		{{"tx", []string{"tx_status", "tx_input"}, ""}, {"tx", []string{"tx_status", "tx_gas_used", "tx_input"}, ""}},
		{{"trace", []string{"trace_action_value", "tx_hash"}, ""}, {"trace", []string{"trace_action_from", "trace_action_value", "tx_hash"}, ""}},
	}
	for si, seq := range seqs {
		cl := jrpc2.New(node.URL()).WithMaxReads(20).WithPollDuration(time.Hour)
		for k, st := range seq {
			res, detail := e2eFieldsOn(cl, node, chain, st.mode, st.fields, st.ev)
			detail["sequence"] = si
			detail["position_in_sequence"] = k
			e.Add(core.Case{Impl: res, Spec: "ok", Key: fmt.Sprintf("e2e-shared %d %d", si, k), Nontrivial: true,
				Tags: []string{"e2e-shared-client", "mode=" + st.mode}, Detail: detail})
		}
	}
}

func e2eFieldsOn(cl *jrpc2.Client, node *simnode.Node, chain *simnode.Chain, mode string, fields []string, evKind string) (string, map[string]any) {
	var ev *dig.Event
	var cols []wpg.Column
	sigWant := transferEvent.SignatureHash()
	valCol, aCol, bCol := "ev_value", "ev_from", "ev_to"
	if mode == "log" {
		ev, cols = &transferEvent, transferCols
		if evKind == "approval" {
			ev, cols = &approvalEvent, approvalCols
			sigWant = approvalEvent.SignatureHash()
			aCol, bCol = "ev_owner", "ev_spender"
		}
	}
	detail := map[string]any{"mode": mode, "fields": fields}
	// every other field is stored under a column that is NOT named like the field: the planner and the
	// row builder must go by the field name, the table by the column name
	ig, cig, err := buildIG("ig1", "t1", fields, ev, cols, "", func(ci *config.Integration) {
		keep := map[string]bool{"block_num": true, "tx_idx": true, "log_idx": true, "trace_action_idx": true, "ig_name": true, "src_name": true, "abi_idx": true}
		for i := range ci.Block {
			f := ci.Block[i].Name
			if keep[f] || len(f)%2 == 1 {
				continue
			}
			for j := range ci.Table.Columns {
				if ci.Table.Columns[j].Name == ci.Block[i].Column {
					ci.Table.Columns[j].Name = "c_" + f
				}
			}
			ci.Block[i].Column = "c_" + f
		}
		if e2eFilterEvery && mode != "log" {
			// a filter that every value passes on EVERY selected field (default aggregation): the rows and what
			// each column must hold stay what they are without filters
			for i := range ci.Block {
				switch fieldType(ci.Block[i].Name) {
				case "bytea":
					ci.Block[i].Filter = dig.Filter{Op: "ne", Arg: []string{"0x00dead00beef00"}}
				case "numeric", "int":
					ci.Block[i].Filter = dig.Filter{Op: "ne", Arg: []string{"987654321987"}}
				}
			}
		}
	})
	if err != nil {
		return "config-rejected: " + err.Error(), detail
	}
	flt := ig.Filter()
	detail["plan"] = flagsOf(&flt)
	getURL := node.URL()
	if cl == nil {
		cl = jrpc2.New(node.URL() + "/nocache")
		getURL = node.URL() + "/nocache"
	}
	ctx := e2eCtx("src1", 7)
	var blocks []eth.Block
	out := core.Protect(func() string {
		var err error
		blocks, err = cl.Get(ctx, getURL, &flt, 1, 3)
		if err != nil {
			return "get-error: " + err.Error()
		}
		return ""
	})
	if out != "" {
		return out, detail
	}
	fc := &fakeConn{}
	var mu sync.Mutex
	out = core.Protect(func() string {
		if _, err := ig.Insert(ctx, &mu, fc, blocks); err != nil {
			return "insert-error: " + err.Error()
		}
		return ""
	})
	if out != "" {
		return out, detail
	}
	if len(fc.copies) != 1 {
		return fmt.Sprintf("copies=%d", len(fc.copies)), detail
	}
	rows := copyRowMaps(fc.copies[0])
	// expected items
	type key struct{ b, t, x uint64 }
	want := map[key]item{}
	for bi := 1; bi <= 3; bi++ {
		b := &chain.Blocks[bi]
		for ti := range b.Txs {
			t := &b.Txs[ti]
			switch mode {
			case "tx":
				want[key{b.Num, t.Idx, 0}] = item{b: b, t: t}
			case "log":
				for li := range t.Logs {
					// the Transfer logs: signature hash and exactly three topics (a decoy with four is not one)
					if l := &t.Logs[li]; len(l.Topics) == 3 && bytes.Equal(l.Topics[0], sigWant) {
						want[key{b.Num, t.Idx, l.Idx}] = item{b: b, t: t, l: l}
					}
				}
			case "trace":
				for xi := range t.Traces {
					want[key{b.Num, t.Idx, uint64(xi)}] = item{b: b, t: t, ta: &t.Traces[xi], ti: xi}
				}
			}
		}
	}
	if len(rows) != len(want) {
		return fmt.Sprintf("rows=%d want=%d", len(rows), len(want)), detail
	}
	seen := map[key]bool{}
	for _, r := range rows {
		var k key
		fmt.Sscanf(r["block_num"], "n:%d", &k.b)
		fmt.Sscanf(r["tx_idx"], "n:%d", &k.t)
		switch mode {
		case "log":
			fmt.Sscanf(r["log_idx"], "n:%d", &k.x)
		case "trace":
			fmt.Sscanf(r["trace_action_idx"], "n:%d", &k.x)
		}
		it, ok := want[k]
		if !ok || seen[k] {
			return fmt.Sprintf("unexpected-or-duplicate row %v", r), detail
		}
		seen[k] = true
		for _, bd := range cig.Block {
			if bd.Name == "abi_idx" {
				continue
			}
			exp := expectField(bd.Name, it, "src1", "ig1", 7)
			if got := r[bd.Column]; got != exp {
				return fmt.Sprintf("field %s: stored %s, source reports %s (block %d tx %d)", bd.Name, got, exp, k.b, k.t), detail
			}
		}
		if mode == "log" {
			if got, exp := r[valCol], "n:"+new256(it.l.Data[:32]).Dec(); got != exp {
				return fmt.Sprintf("%s: stored %s want %s", valCol, got, exp), detail
			}
			if got, exp := r[aCol], fmt.Sprintf("x:%x", it.l.Topics[1][12:]); got != exp {
				return fmt.Sprintf("%s: stored %s want %s", aCol, got, exp), detail
			}
			if got, exp := r[bCol], fmt.Sprintf("x:%x", it.l.Topics[2][12:]); got != exp {
				return fmt.Sprintf("%s: stored %s want %s", bCol, got, exp), detail
			}
		}
	}
	return "ok", detail
}

func modeFor(fields []string) (mode string, valid bool) {
	hasLog, hasTrace := false, false
	for _, f := range fields {
		hasLog = hasLog || isLogField(f)
		hasTrace = hasTrace || isTraceField(f)
	}
	switch {
	case hasLog && hasTrace:
		return "", false // not a declaration shape (log- and trace-indexing are separate)
	case hasTrace:
		return "trace", true
	case hasLog:
		return "log", true
	}
	return "tx", true
}

func runC14(e *core.Env) error {
	r := e.Rand
	var sets [][]string
	for i, f := range allFields {
		sets = append(sets, []string{f})
		for _, g := range allFields[i+1:] {
			sets = append(sets, []string{f, g})
		}
	}
	for i := 0; i < e.N(150, 3000); i++ {
		var s []string
		p := 1 + r.Intn(6)
		for _, f := range allFields {
			if r.Intn(8) < p {
				s = append(s, f)
			}
		}
		if len(s) > 0 {
			sets = append(sets, s)
		}
	}
	chain := transferChain(5, 1+e.Seed%7)
	node := simnode.NewNode(chain)
	defer node.Close()
	_ = context.Background
	e2eSharedClient(e, node, chain)
	for _, s := range sets {
		// K: planner flags
		f := glf.New(s, nil, nil)
		e.Add(core.Case{Op: "planflags " + strings.Join(s, ","), Impl: flagsOf(f), Nontrivial: true,
			Tags: []string{"plan", fmt.Sprintf("size=%d", min(len(s), 5))}})
		// O: end to end
		mode, ok := modeFor(s)
		if !ok {
			continue
		}
		modes := []string{mode}
		if mode == "tx" && (len(s) <= 2 || r.Chance(1, 3)) {
			modes = append(modes, "log") // same fields with an event declaration
		}
		for _, m := range modes {
			e2eFilterEvery = m != "log" && len(s) >= 2 && r.Chance(1, 3)
			res, detail := e2eFields(node, chain, m, s)
			filtered := e2eFilterEvery
			e2eFilterEvery = false
			e.Add(core.Case{Impl: res, Spec: "ok", Key: fmt.Sprintf("e2e %s %s filtered=%v", m, strings.Join(s, ","), filtered), Nontrivial: true,
				Tags: []string{"e2e", "mode=" + m, "plan=" + fmt.Sprint(detail["plan"]), fmt.Sprintf("pass-all-filter-on-every-field=%v", filtered)}, Detail: detail})
		}
	}
	return nil
}
