package props

import (
	"bytes"
	"encoding/hex"
	"fmt"
	"math/big"
	"strings"
	"sync"

	"github.com/holiman/uint256"
	"github.com/indexsupply/shovel/dig"
	"github.com/indexsupply/shovel/eth"
	"github.com/indexsupply/shovel/shovel/config"
	"github.com/indexsupply/shovel/wpg"
	"golang.org/x/crypto/sha3"

	"verifharness/core"
	"verifharness/simnode"
)

func init() {
	Registry["C11"] = func(e *core.Env) error { return runRows(e, "C11") }
	Registry["C12"] = func(e *core.Env) error { return runRows(e, "C12") }
	Registry["C13"] = func(e *core.Env) error { return runRows(e, "C13") }
	Rules["C11"] = "random event declarations (any mix of indexed/non-indexed, selected/unselected inputs, arrays, tuples) plus random block/tx/receipt/log fields in any order, run through config.ValidateFix, dig.New and the real Integration.Insert on logs with and without data; every COPY row is compared with the model row builder (K) and with the Lean Spec row (column = own topic position / decoded value / field of the item / abi_idx from zero, typed rendering of uintN/intN/address/bool/string/bytes) (O); plus all fields end-to-end through JSON-RPC (shared with C14). non-trivial = a gated log producing at least one row; distinct by (declaration, log)"
	Rules["C12"] = "the declarations of C11 with random filters on selected inputs and on block fields: operators contains/!contains/eq/ne/gt/lt (and unknown/empty), value kinds bytes/string/u64/u256, 0..3 arguments chosen equal to / infix of / around the actual value, reference filters against random table contents, both aggregations; emitted rows vs model (K) and vs the Lean Spec accept predicate (O); the address restriction of Integration.Filter vs the model's and vs pushdown soundness on the generated logs. non-trivial = at least one active filter; distinct by (declaration, filters, log)"
	Rules["C13"] = "random event names and input trees (tuples, tuple arrays, nested tuples, fixed/dynamic arrays) : Event.Signature vs model vs an independently written canonical form, SignatureHash vs Keccak of it; logs: matching, same hash with fewer/more topics, other hash, empty topic list, through Integration.Insert: rows only for gated logs. non-trivial = declaration with a tuple or array input or a decoy log; distinct by (declaration, log)"
}

func keccak(b []byte) []byte {
	k := sha3.NewLegacyKeccak256()
	k.Write(b)
	return k.Sum(nil)
}

type gfilter struct {
	op     string
	args   []string
	ref    bool // reference filter against reft.refc of integration refig
	active bool
}

func (f gfilter) enc() string {
	if !f.active {
		return "-"
	}
	op := f.op
	if op == "" {
		op = "~"
	}
	parts := append([]string{op}, f.args...)
	if f.ref {
		parts = append(parts, "@reft.refc.refig")
	}
	return strings.Join(parts, "|")
}

func (f gfilter) dig() dig.Filter {
	if !f.active {
		return dig.Filter{}
	}
	df := dig.Filter{Op: f.op, Arg: f.args}
	if f.ref {
		df.Ref = dig.Ref{Integration: "refig", Column: "refc"}
	}
	return df
}

var bytesOps = []string{"contains", "!contains", "eq", "ne", "", "gt"}
var numOps = []string{"eq", "ne", "gt", "lt", "contains", ""}
var strOps = []string{"contains", "!contains", "eq", "ne", "gt"}

// genFilter makes a filter for a value of the given kind whose actual value is val
// (kind: 'x' bytes, 's' string, 'n' u64, 'u' u256, '-' unsupported kind)
func genFilter(r *core.Rand, kind byte, val any, allowRef bool) gfilter {
	if !r.Chance(2, 5) {
		return gfilter{}
	}
	f := gfilter{active: true}
	switch kind {
	case 'x':
		v := val.([]byte)
		f.op = core.Pick(r, bytesOps)
		if allowRef && strings.HasSuffix(f.op, "contains") && r.Chance(1, 4) {
			f.ref = true
			if r.Bool() {
				f.args = nil
			}
			return f
		}
		n := 1 + r.Intn(3)
		for i := 0; i < n; i++ {
			switch r.Intn(5) {
			case 0:
				f.args = append(f.args, "0x"+hex.EncodeToString(v))
			case 1:
				if len(v) > 2 {
					a := r.Intn(len(v) - 1)
					b := a + 1 + r.Intn(len(v)-a-1)
					f.args = append(f.args, "0x"+hex.EncodeToString(v[a:b]))
				} else {
					f.args = append(f.args, "0x")
				}
			case 2:
				f.args = append(f.args, hex.EncodeToString(v)) // no 0x prefix
			default:
				f.args = append(f.args, "0x"+hex.EncodeToString(r.Bytes(max(len(v), 1))))
			}
		}
		for i, a := range f.args {
			f.args[i] = respell(r, a)
		}
	case 's':
		v := val.(string)
		f.op = core.Pick(r, strOps)
		n := 1 + r.Intn(3)
		for i := 0; i < n; i++ {
			if r.Bool() {
				f.args = append(f.args, v)
			} else {
				f.args = append(f.args, fmt.Sprintf("s%d", r.Intn(5)))
			}
		}
	case 'n', 'u':
		v := val.(*big.Int)
		f.op = core.Pick(r, numOps)
		d := big.NewInt(int64(r.Intn(3) - 1))
		a := new(big.Int).Add(v, d)
		if a.Sign() < 0 {
			a = big.NewInt(0)
		}
		f.args = []string{a.String()}
		if r.Chance(1, 12) {
			f.args = []string{"12x"}
		}
		if r.Chance(1, 6) {
			f.args = append(f.args, v.String())
		}
	default:
		f.op = core.Pick(r, bytesOps)
		f.args = []string{"0x01"}
	}
	return f
}

// block fields usable in log mode with a fixed tx/log context
type ctxVal struct {
	kind byte
	b    []byte
	n    *big.Int
	s    string
}

func (c ctxVal) enc() string {
	switch c.kind {
	case 'x':
		return "x:" + hex.EncodeToString(c.b)
	case 's':
		return "s:" + hex.EncodeToString([]byte(c.s))
	case 'n':
		return "n:" + c.n.String()
	case 'u':
		return "u:" + c.n.String()
	case 'y':
		return "y:" + c.n.String()
	}
	return "z:"
}

func (c ctxVal) val() any {
	switch c.kind {
	case 'x':
		return c.b
	case 's':
		return c.s
	}
	return c.n
}

var logModeFields = []string{"chain_id", "block_hash", "block_time", "tx_hash", "tx_signer", "tx_to", "tx_value", "tx_input", "tx_type", "tx_status",
	"tx_gas_used", "tx_gas_price", "tx_effective_gas_price", "tx_contract_address", "tx_max_priority_fee_per_gas", "tx_max_fee_per_gas", "tx_nonce", "log_addr"}

// makeItem builds a block with one tx and the context values the row builder will read
func makeItem(r *core.Rand) (eth.Block, map[string]ctxVal) {
	u64 := func() *big.Int { return new(big.Int).SetUint64(1 + r.U64()>>uint(8+r.Intn(40))) }
	u256v := func() *big.Int { return new(big.Int).SetBytes(r.Bytes(1 + r.Intn(32))) }
	cv := map[string]ctxVal{}
	var b eth.Block
	set256 := func(dst *uint256.Int, name string) {
		v := u256v()
		dst.SetFromBig(v)
		cv[name] = ctxVal{kind: 'u', n: v}
	}
	num := u64()
	b.Header.Number = eth.Uint64(num.Uint64())
	cv["block_num"] = ctxVal{kind: 'n', n: num}
	b.Header.Hash = r.Bytes(32)
	cv["block_hash"] = ctxVal{kind: 'x', b: b.Header.Hash}
	tm := u64()
	b.Header.Time = eth.Uint64(tm.Uint64())
	cv["block_time"] = ctxVal{kind: 'n', n: tm}
	var tx eth.Tx
	ti := big.NewInt(int64(r.Intn(300)))
	tx.Idx = eth.Uint64(ti.Uint64())
	cv["tx_idx"] = ctxVal{kind: 'n', n: ti}
	tx.PrecompHash = r.Bytes(32)
	cv["tx_hash"] = ctxVal{kind: 'x', b: tx.PrecompHash}
	tx.From = r.Bytes(20)
	cv["tx_signer"] = ctxVal{kind: 'x', b: tx.From}
	tx.To = r.Bytes(20)
	if r.Chance(1, 4) {
		tx.To = []byte{} // a contract creation: no recipient
	}
	cv["tx_to"] = ctxVal{kind: 'x', b: tx.To}
	tx.Data = r.Bytes(r.Intn(40))
	cv["tx_input"] = ctxVal{kind: 'x', b: tx.Data}
	tx.ContractAddress = r.Bytes(20)
	if len(tx.To) > 0 && r.Chance(2, 3) {
		tx.ContractAddress = []byte{} // an ordinary transaction creates no contract
	}
	cv["tx_contract_address"] = ctxVal{kind: 'x', b: tx.ContractAddress}
	set256(&tx.Value, "tx_value")
	set256(&tx.GasPrice, "tx_gas_price")
	set256(&tx.EffectiveGasPrice, "tx_effective_gas_price")
	set256(&tx.MaxPriorityFeePerGas, "tx_max_priority_fee_per_gas")
	set256(&tx.MaxFeePerGas, "tx_max_fee_per_gas")
	ty := big.NewInt(int64(r.Intn(4)))
	tx.Type = eth.Byte(ty.Uint64())
	cv["tx_type"] = ctxVal{kind: 'y', n: ty}
	st := big.NewInt(int64(r.Intn(2)))
	tx.Status = eth.Byte(st.Uint64())
	cv["tx_status"] = ctxVal{kind: 'y', n: st}
	gu := u64()
	tx.GasUsed = eth.Uint64(gu.Uint64())
	cv["tx_gas_used"] = ctxVal{kind: 'n', n: gu}
	no := u64()
	tx.Nonce = eth.Uint64(no.Uint64())
	cv["tx_nonce"] = ctxVal{kind: 'n', n: no}
	b.Txs = []eth.Tx{tx}
	cv["src_name"] = ctxVal{kind: 's', s: "src1"}
	cv["ig_name"] = ctxVal{kind: 's', s: "ig1"}
	cv["chain_id"] = ctxVal{kind: 'n', n: big.NewInt(7)}
	return b, cv
}

// leafKind: filter value kind of a selected leaf per dbtype
func leafKind(name string) byte {
	switch {
	case strings.HasPrefix(name, "uint"):
		return 'u'
	case strings.HasPrefix(name, "int"), name == "bool":
		return '-'
	case name == "string":
		return 's'
	}
	return 'x'
}

func collectLeaves(t *aty, out *[]*aty) {
	b, _ := t.peel()
	if b.kind == 't' {
		for _, f := range b.fields {
			collectLeaves(f, out)
		}
	} else if b.sel {
		*out = append(*out, b)
	}
}

func runRows(e *core.Env, prop string) error {
	r := e.Rand
	nEvents := e.N(200, 3000)
	type evCase struct {
		inputs  []*aty
		desc    string
		val     string
		name    string
		selLeaf []*aty
	}
	var evs []evCase
	var encOps []string
	for i := 0; i < nEvents; i++ {
		g := &abiGen{r: r.Fork(), selP: 3 + r.Intn(5), maxK: 12}
		ins := g.event(4)
		ec := evCase{inputs: ins, desc: descOf(ins), name: core.Pick(r, []string{"Transfer", "E", "OrderFulfilled", "x_1", "A"})}
		for _, in := range ins {
			collectLeaves(in, &ec.selLeaf)
		}
		ec.val = g.dataValue(ins)
		encOps = append(encOps, "enc "+ec.desc+" "+ec.val)
		evs = append(evs, ec)
	}
	encOut, err := core.RunDriver(e.Driver, encOps)
	if err != nil {
		return err
	}
	if prop == "C13" {
		// groups of declarations (often with the SAME event name and a different input list, as for two
		// versions of a contract) stored in the database together and loaded back
		for g0, gi := 0, 0; g0+1 < len(evs) && gi < e.N(12, 120); gi++ {
			n := 2 + r.Intn(3)
			var group []dbDecl
			shared := core.Pick(r, []string{"Transfer", "Deposit"})
			for k := 0; k < n && g0 < len(evs); k, g0 = k+1, g0+1 {
				ec := evs[g0]
				name := ec.name
				if gi%2 == 0 {
					name = shared
				}
				var parts []string
				nIdx := 0
				for _, in := range ec.inputs {
					parts = append(parts, in.canon())
					if in.indexed {
						nIdx++
					}
				}
				group = append(group, dbDecl{name: fmt.Sprintf("dbig%d", k), event: eventOf(name, ec.inputs), canon: name + "(" + strings.Join(parts, ",") + ")", nIndex: nIdx})
			}
			dbDeclRoundTrip(e, group, fmt.Sprintf("c13-db %d", gi))
		}
		// the classic pair: ERC-20 and ERC-721 Transfer (same name, same types, another indexed layout)
		addr := func(n string, idx bool) dig.Input { return dig.Input{Name: n, Type: "address", Indexed: idx} }
		erc20 := dig.Event{Name: "Transfer", Type: "event", Inputs: []dig.Input{addr("from", true), addr("to", true), {Name: "value", Type: "uint256"}}}
		erc721 := dig.Event{Name: "Transfer", Type: "event", Inputs: []dig.Input{addr("from", true), addr("to", true), {Name: "tokenId", Type: "uint256", Indexed: true}}}
		four := dig.Event{Name: "Transfer", Type: "event", Inputs: []dig.Input{addr("operator", true), addr("from", true), addr("to", true), {Name: "id", Type: "uint256"}, {Name: "value", Type: "uint256"}}}
		for pi, perm := range [][]int{{0, 1}, {1, 0}, {2, 0, 1}, {0, 2, 1}, {1, 0, 2}} {
			all := []dbDecl{{"erc20", erc20, "Transfer(address,address,uint256)", 2}, {"erc721", erc721, "Transfer(address,address,uint256)", 3}, {"multi", four, "Transfer(address,address,address,uint256,uint256)", 3}}
			var group []dbDecl
			for _, k := range perm {
				group = append(group, all[k])
			}
			dbDeclRoundTrip(e, group, fmt.Sprintf("c13-db-transfer %d", pi))
		}
	}
	var prevRerun func() string
	var prevImpl, prevKey string
	for ei, ec := range evs {
		ev := eventOf(ec.name, ec.inputs)
		// ---- C13: signature
		canonParts := []string{}
		for _, in := range ec.inputs {
			canonParts = append(canonParts, in.canon())
		}
		canon := ec.name + "(" + strings.Join(canonParts, ",") + ")"
		sigImpl := core.Protect(func() string { return ev.Signature() })
		hasStruct := strings.ContainsAny(canon[len(ec.name)+1:], "([")
		if prop == "C13" {
			e.Add(core.Case{Op: "sig " + ec.name + " " + ec.desc, Impl: sigImpl, Spec: canon, Nontrivial: hasStruct, Tags: []string{"sig", fmt.Sprintf("structured=%v", hasStruct)}})
			e.Add(core.Case{Impl: core.Hex(ev.SignatureHash()), Spec: core.Hex(keccak([]byte(canon))), Key: "sighash " + canon, Nontrivial: hasStruct, Tags: []string{"sighash"}})
		}
		sighash := ev.SignatureHash()
		parts := strings.SplitN(encOut[ei], " ", 4)
		if parts[0] != "ok" || len(parts) < 4 {
			continue
		}
		var data []byte
		if parts[1] != "-" {
			data, _ = hex.DecodeString(parts[1])
		}
		blk, cv := makeItem(r)
		// ---- filters on selected inputs (C12) need the actual values; take them from topics / first row
		var topics [][]byte
		topics = append(topics, sighash)
		nIdx := 0
		topicOf := map[*aty][]byte{}
		for _, in := range ec.inputs {
			if in.indexed {
				nIdx++
				w := r.Bytes(32)
				switch {
				case in.name == "address":
					w = append(make([]byte, 12), r.Bytes(20)...)
				case in.name == "bool":
					w = make([]byte, 32)
					w[31] = byte(r.Intn(2))
				case strings.HasPrefix(in.name, "uint") && r.Bool():
					w = append(make([]byte, 24), r.Bytes(8)...)
				}
				topics = append(topics, w)
				topicOf[in] = w
			}
		}
		withFilters := prop == "C12" || r.Chance(1, 4)
		agg := core.Pick(r, []string{"", "and", "or"})
		var ifl []gfilter
		for _, lf := range ec.selLeaf {
			var f gfilter
			if withFilters {
				k := leafKind(lf.name)
				var val any
				switch {
				case lf.indexed:
					w := topicOf[lf]
					switch k {
					case 'u':
						val = new(big.Int).SetBytes(w)
					case 's':
						val = string(w)
					default:
						val = w
						if lf.name == "address" {
							val = w[12:]
						}
					}
				default: // data leaf: operands taken from the words of the encoded value (so that the rows an
					// array decodes into get DIFFERENT verdicts), or random
					var words [][]byte
					for _, tok := range strings.Split(ec.val, ",") {
						if strings.HasPrefix(tok, "w:") {
							if b, err := hex.DecodeString(tok[2:]); err == nil && len(b) == 32 {
								words = append(words, b)
							}
						}
					}
					switch k {
					case 'u':
						val = new(big.Int).SetBytes(r.Bytes(1 + r.Intn(8)))
						if len(words) > 0 && r.Chance(3, 4) {
							val = new(big.Int).SetBytes(core.Pick(r, words))
						}
					case 's':
						val = "s1"
					default:
						val = r.Bytes(20)
						if len(words) > 0 && r.Chance(3, 4) {
							w := core.Pick(r, words)
							val = w
							if lf.name == "address" {
								val = w[12:]
							}
						}
					}
				}
				f = genFilter(r, k, val, true)
			}
			ifl = append(ifl, f)
		}
		// apply input filters to the event declaration
		{
			k := 0
			var walk func(ins []dig.Input)
			walk = func(ins []dig.Input) {
				for i := range ins {
					walk(ins[i].Components)
					if ins[i].Column != "" {
						ins[i].Filter = ifl[k].dig()
						k++
					}
				}
			}
			walk(ev.Inputs)
		}
		// ---- block fields
		var fields []string
		for _, f := range logModeFields {
			if r.Chance(1, 4) {
				fields = append(fields, f)
			}
		}
		if len(ec.selLeaf) == 0 {
			// a declaration without a selected input is transaction-indexing: log fields are not
			// selectable there (the row builder has no log; ValidateFix does not reject it - noted in DESIGN.md)
			var keep []string
			for _, f := range fields {
				if !isLogField(f) {
					keep = append(keep, f)
				}
			}
			fields = keep
		}
		r2 := r.Fork()
		for i := len(fields) - 1; i > 0; i-- { // any column order
			j := r2.Intn(i + 1)
			fields[i], fields[j] = fields[j], fields[i]
		}
		bfl := map[string]gfilter{}
		laddr := r.Bytes(20)
		cv["log_addr"] = ctxVal{kind: 'x', b: laddr}
		lidx := big.NewInt(int64(r.Intn(500)))
		cv["log_idx"] = ctxVal{kind: 'n', n: lidx}
		if withFilters {
			extraF := []string{"block_num", "tx_idx", "log_idx", "src_name"}
			if len(ec.selLeaf) == 0 {
				extraF = []string{"block_num", "tx_idx", "src_name"}
			}
			for _, f := range append(append([]string{}, fields...), extraF...) {
				c := cv[f]
				k := c.kind
				if k == 'y' {
					k = '-'
				}
				bfl[f] = genFilter(r, k, c.val(), f != "src_name")
			}
		}
		hasLogAddr := false
		for _, f := range fields {
			hasLogAddr = hasLogAddr || f == "log_addr"
		}
		if withFilters && hasLogAddr && r.Chance(1, 2) {
			// the address filter that may be pushed down to eth_getLogs: lists mixing complete 20-byte
			// addresses with shorter fragments, over-long and empty arguments; often the only active filter
			g := gfilter{active: true, op: core.Pick(r, bytesOps)}
			if r.Chance(2, 3) {
				g.op = "contains"
			}
			for i, n := 0, 1+r.Intn(3); i < n; i++ {
				switch r.Intn(6) {
				case 0, 1:
					g.args = append(g.args, "0x"+hex.EncodeToString(laddr))
				case 2:
					g.args = append(g.args, "0x"+hex.EncodeToString(r.Bytes(20)))
				case 3:
					a := r.Intn(19)
					g.args = append(g.args, "0x"+hex.EncodeToString(laddr[a:a+1+r.Intn(19-a)]))
				case 4:
					g.args = append(g.args, "0x"+hex.EncodeToString(r.Bytes(1+r.Intn(4))))
				default:
					g.args = append(g.args, core.Pick(r, []string{"0x", "0x" + hex.EncodeToString(r.Bytes(21)), hex.EncodeToString(laddr)}))
				}
			}
			for i, a := range g.args {
				g.args[i] = respell(r, a)
			}
			bfl["log_addr"] = g
			if r.Bool() {
				for f := range bfl {
					if f != "log_addr" {
						bfl[f] = gfilter{}
					}
				}
			}
		}
		forceRef := ""
		if withFilters && r.Chance(1, 4) {
			// or-aggregation of two filters on byte-string fields where one REJECTS (an argument that does
			// not occur) and the other is a reference lookup that ACCEPTS (the value is in the referenced
			// table), in either column order: the row must be kept
			var xs []string
			for _, f := range fields {
				if c, ok := cv[f]; ok && c.kind == 'x' && len(c.b) > 0 {
					xs = append(xs, f)
				}
			}
			if len(xs) >= 2 {
				i := r.Intn(len(xs))
				j := (i + 1 + r.Intn(len(xs)-1)) % len(xs)
				for f := range bfl {
					bfl[f] = gfilter{}
				}
				bfl[xs[i]] = gfilter{active: true, op: "contains", args: []string{"0x" + hex.EncodeToString(r.Bytes(len(cv[xs[i]].b)))}}
				bfl[xs[j]] = gfilter{active: true, op: "contains", ref: true}
				forceRef = xs[j]
				agg = core.Pick(r, []string{"", "or", "or", "and"})
			}
		}
		var cols []wpg.Column
		for _, lf := range ec.selLeaf {
			cols = append(cols, wpg.Column{Name: lf.col, Type: "bytea"})
		}
		refVals := [][]byte{}
		refIG := config.Integration{Name: "refig", Enabled: true}
		refIG.Table.Name = "reft"
		refIG.Table.Columns = []wpg.Column{{Name: "refc", Type: "bytea"}}
		refIG.Block = []dig.BlockData{{Name: "tx_hash", Column: "refc"}}
		ig, cig, err := buildIG("ig1", "t1", fields, &ev, cols, agg, func(ci *config.Integration) {
			for i := range ci.Block {
				ci.Block[i].Filter = bfl[ci.Block[i].Name].dig()
			}
			// filters on required fields must be declared up front
			for _, f := range []string{"block_num", "tx_idx", "log_idx", "src_name"} {
				if g, ok := bfl[f]; ok && g.active {
					ci.Block = append(ci.Block, dig.BlockData{Name: f, Column: f, Filter: g.dig()})
					ci.Table.Columns = append(ci.Table.Columns, wpg.Column{Name: f, Type: fieldType(f)})
				}
			}
		}, refIG)
		if err != nil {
			e.Add(core.Case{Impl: "config-rejected: " + err.Error(), Spec: "accepted", Key: "cfg " + ec.desc, Tags: []string{"config-rejected"}, Detail: map[string]any{"event": ev}})
			continue
		}
		if prevRerun != nil {
			// several integrations live in one process: building THIS one (its signature hash, its type tree)
			// must leave the previously built one exactly as it was - its matching log still yields the same rows
			again := prevRerun()
			e.Add(core.Case{Impl: again, Spec: prevImpl, Key: "still-intact " + prevKey, Nontrivial: strings.HasPrefix(prevImpl, "ok "),
				Tags: []string{"earlier-integration-intact-after-building-another"}, Detail: map[string]any{"earlier": prevKey, "built_after": ec.desc}})
			prevRerun = nil
		}
		// reference table contents: sometimes contain the looked-up values
		for _, c := range []string{"log_addr", "tx_hash", "block_hash", "tx_to", "tx_signer"} {
			if r.Bool() || c == forceRef {
				refVals = append(refVals, cv[c].b)
			}
		}
		if forceRef != "" {
			refVals = append(refVals, cv[forceRef].b)
		}
		for _, w := range topics[1:] {
			if r.Bool() {
				refVals = append(refVals, w)
				refVals = append(refVals, w[12:])
			}
		}
		refSet := map[string]bool{}
		var refEnc []string
		for _, v := range refVals {
			refSet[hex.EncodeToString(v)] = true
			refEnc = append(refEnc, core.Hex(v))
		}
		refsTok := "_"
		if len(refEnc) > 0 {
			refsTok = "reft.refc=" + strings.Join(refEnc, ",")
		}
		// model-side declaration tokens
		iflTok := "_"
		if len(ifl) > 0 {
			var xs []string
			for _, f := range ifl {
				xs = append(xs, f.enc())
			}
			iflTok = strings.Join(xs, ";")
		}
		var bsp, ctxs []string
		for _, bd := range cig.Block {
			g := gfilter{}
			if len(bd.Filter.Arg) > 0 || bd.Filter.Ref.Integration != "" {
				g = gfilter{active: true, op: bd.Filter.Op, args: bd.Filter.Arg, ref: bd.Filter.Ref.Integration != ""}
			}
			bsp = append(bsp, bd.Name+"="+g.enc())
			if c, ok := cv[bd.Name]; ok {
				ctxs = append(ctxs, bd.Name+"="+c.enc())
			}
		}
		aggTok := cig.FilterAGG
		if aggTok == "" {
			aggTok = "-"
		}
		declToks := fmt.Sprintf("%s %s %s %s", aggTok, ec.desc, iflTok, strings.Join(bsp, ";"))
		nActive := 0
		for _, f := range ifl {
			if f.active {
				nActive++
			}
		}
		for _, bd := range cig.Block {
			if len(bd.Filter.Arg) > 0 || bd.Filter.Ref.Integration != "" {
				nActive++
			}
		}
		// ---- C12: pushdown
		var pushed []string
		if prop == "C12" {
			flt := ig.Filter()
			addrs := flt.Addresses()
			pushed = addrs
			impl := "-"
			if len(addrs) > 0 {
				var xs []string
				for _, a := range addrs {
					xs = append(xs, strings.TrimPrefix(a, "0x"))
				}
				impl = strings.Join(xs, ",")
			}
			e.Add(core.Case{Op: "pushaddrs " + declToks, Impl: impl, Nontrivial: nActive > 0, Tags: []string{"pushaddrs", fmt.Sprintf("pushed=%v", len(addrs) > 0)}, Detail: map[string]any{"block": cig.Block, "agg": cig.FilterAGG}})
		}
		// ---- C12: the topic restriction sent with eth_getLogs, and the declaration as it arrives from the
		// database (no ValidateFix: the aggregation as written, any letter case, or absent)
		var topicFilter [][]string
		var igRaw *dig.Integration
		rawAgg := ""
		if prop == "C12" {
			{
				flt0 := ig.Filter()
				topicFilter = flt0.Topics()
			}
			var tt []string
			for _, alts := range topicFilter {
				tt = append(tt, strings.Join(alts, "|"))
			}
			e.Add(core.Case{Impl: strings.Join(tt, ","), Spec: "0x" + hex.EncodeToString(sighash), Key: "topics " + declToks, Nontrivial: true, Tags: []string{"topics-restriction"},
				Detail: map[string]any{"event": ev, "block": cig.Block}})
			rawAgg = core.Pick(r, []string{"", "", "AND", "Or", "and", "or", "OR"})
			if x, err := dig.New(cig.Name, cig.Event, cig.Block, cig.Table, cig.Notification, rawAgg); err == nil {
				igRaw = &x
				rawTok := strings.ToLower(rawAgg)
				if rawTok == "" {
					rawTok = "-"
				}
				fltx := x.Filter()
				addrs := fltx.Addresses()
				impl := "-"
				if len(addrs) > 0 {
					var xs []string
					for _, a := range addrs {
						xs = append(xs, strings.TrimPrefix(a, "0x"))
					}
					impl = strings.Join(xs, ",")
				}
				rawDecl := fmt.Sprintf("%s %s %s %s", rawTok, ec.desc, iflTok, strings.Join(bsp, ";"))
				e.Add(core.Case{Op: "pushaddrs " + rawDecl, Impl: impl, Nontrivial: nActive > 0, Tags: []string{"pushaddrs", "declaration-from-database", "agg-as-written=" + rawAgg, fmt.Sprintf("pushed=%v", len(addrs) > 0)},
					Detail: map[string]any{"block": cig.Block, "agg": rawAgg}})
			}
		}
		// ---- logs: matching and decoys
		type lg struct {
			topics [][]byte
			data   []byte
			tag    string
		}
		logs := []lg{{topics, data, "matching"}}
		if prop == "C13" || r.Chance(1, 3) {
			logs = append(logs,
				lg{topics[:len(topics)-1+0], data, "fewer-topics"}, // identical when nIdx == 0 -> drop below
				lg{append(append([][]byte{}, topics...), r.Bytes(32)), data, "more-topics"},
				lg{append([][]byte{r.Bytes(32)}, topics[1:]...), data, "other-hash"},
				lg{nil, data, "no-topics"},
				lg{topics, nil, "no-data"})
			if nIdx > 0 {
				logs[1].topics = topics[:len(topics)-1]
			} else {
				logs[1].topics = [][]byte{}
			}
			if len(data) > 32 {
				logs = append(logs, lg{topics, data[:len(data)-1-r.Intn(31)], "truncated-data"})
			}
		}
		for _, l := range logs {
			b2 := eth.Block{Header: blk.Header}
			tx := eth.Tx{}
			src := &blk.Txs[0]
			tx.Idx, tx.PrecompHash, tx.From, tx.To, tx.Data, tx.ContractAddress = src.Idx, src.PrecompHash, src.From, src.To, src.Data, src.ContractAddress
			tx.Value, tx.GasPrice, tx.EffectiveGasPrice, tx.MaxPriorityFeePerGas, tx.MaxFeePerGas = src.Value, src.GasPrice, src.EffectiveGasPrice, src.MaxPriorityFeePerGas, src.MaxFeePerGas
			tx.Type, tx.Status, tx.GasUsed, tx.Nonce = src.Type, src.Status, src.GasUsed, src.Nonce
			el := eth.Log{Idx: eth.Uint64(lidx.Uint64()), Address: laddr, Data: l.data}
			for _, t := range l.topics {
				el.Topics = append(el.Topics, t)
			}
			tx.Logs = eth.Logs{el}
			b2.Txs = eth.Txs{tx}
			fc := &fakeConn{refs: map[string]map[string]bool{"reft.refc": refSet}}
			var mu sync.Mutex
			runIt := func() string {
				fc := &fakeConn{refs: map[string]map[string]bool{"reft.refc": refSet}}
				return core.Protect(func() string {
					if _, err := ig.Insert(e2eCtx("src1", 7), &mu, fc, []eth.Block{b2}); err != nil {
						return "err"
					}
					if len(fc.copies) != 1 {
						return fmt.Sprintf("copies=%d", len(fc.copies))
					}
					var rows []string
					for _, row := range fc.copies[0].Rows {
						var cs []string
						for _, c := range row {
							cs = append(cs, renderVal(c))
						}
						rows = append(rows, strings.Join(cs, ","))
					}
					if len(rows) == 0 {
						return "ok"
					}
					return "ok " + strings.Join(rows, ";")
				})
			}
			_ = fc
			impl := runIt()
			if l.tag == "matching" && prop == "C11" && strings.HasPrefix(impl, "ok ") {
				// the declaration as the DATABASE path builds it (no ValidateFix), with a table that lacks the column
				// of one selected data input: PostgreSQL refuses a COPY that names an empty column; if a COPY is
				// made all the same, every column it names holds the value the complete declaration puts there
				var dataLeaves []*aty
				for _, lf := range ec.selLeaf {
					if !lf.indexed {
						dataLeaves = append(dataLeaves, lf)
					}
				}
				if len(dataLeaves) >= 2 {
					drop := dataLeaves[r.Intn(len(dataLeaves)-1)].col // not the last one: a later input follows
					tb := cig.Table
					tb.Columns = nil
					for _, c := range cig.Table.Columns {
						if c.Name != drop {
							tb.Columns = append(tb.Columns, c)
						}
					}
					verdict := "ok"
					if partial, err := dig.New(cig.Name, cig.Event, cig.Block, tb, cig.Notification, cig.FilterAGG); err == nil {
						fa, fb := &fakeConn{refs: map[string]map[string]bool{"reft.refc": refSet}}, &fakeConn{refs: map[string]map[string]bool{"reft.refc": refSet}}
						out := core.Protect(func() string {
							if _, err := ig.Insert(e2eCtx("src1", 7), &mu, fa, []eth.Block{b2}); err != nil {
								return "err-complete"
							}
							if _, err := partial.Insert(e2eCtx("src1", 7), &mu, fb, []eth.Block{b2}); err != nil {
								return "err"
							}
							return "ok"
						})
						if out == "ok" && len(fa.copies) == 1 && len(fb.copies) == 1 && len(fa.copies[0].Rows) == len(fb.copies[0].Rows) {
							refused := false
							for _, c := range fb.copies[0].Cols {
								refused = refused || c == ""
							}
							if !refused {
								am := copyRowMaps(fa.copies[0])
								for ri, bm := range copyRowMaps(fb.copies[0]) {
									for c, v := range bm {
										if av, ok := am[ri][c]; ok && av != v {
											verdict = fmt.Sprintf("table without column %q: row %d stores %s in column %q, the complete declaration stores %s there", drop, ri, v, c, av)
										}
									}
								}
							}
						}
					}
					e.Add(core.Case{Impl: verdict, Spec: "ok", Key: "missing-column " + ec.desc, Nontrivial: true, Tags: []string{"declaration-from-database", "table-lacks-a-selected-column"},
						Detail: map[string]any{"event": ev, "dropped_column": drop}})
				}
			}
			if l.tag == "matching" {
				prevRerun, prevImpl, prevKey = runIt, impl, ec.desc
				// anything else hashing in the same process (another integration being built, a transaction
				// hash being computed) must leave this integration's signature hash alone
				for k := 0; k < 4; k++ {
					eth.Keccak([]byte(fmt.Sprintf("Other%d(uint256,address)", k)))
				}
				if again := runIt(); again != impl {
					e.Add(core.Case{Impl: again, Spec: impl, Key: "intact-after-hashing " + ec.desc, Nontrivial: true,
						Tags: []string{"integration-intact-after-other-hashing"}, Detail: map[string]any{"event": ev}})
				} else {
					e.Add(core.Case{Impl: "ok", Spec: "ok", Key: "intact-after-hashing " + ec.desc, Nontrivial: strings.HasPrefix(impl, "ok "), Tags: []string{"integration-intact-after-other-hashing"}})
				}
			}
			var tt []string
			for _, t := range l.topics {
				tt = append(tt, core.Hex(t))
			}
			topTok := "_"
			if len(tt) > 0 {
				topTok = strings.Join(tt, ",")
			}
			op := fmt.Sprintf("plog %s %s %s %s %s %s", declToks, core.Hex(sighash), refsTok, topTok, core.Hex(l.data), strings.Join(ctxs, ";"))
			if len(ec.selLeaf) == 0 {
				// no selected input: this is a transaction-indexing declaration (one row per tx, logs ignored)
				e.Add(core.Case{Op: fmt.Sprintf("ptx %s %s %s %s", aggTok, strings.Join(bsp, ";"), refsTok, strings.Join(ctxs, ";")), Impl: impl,
					Oracle:     fmt.Sprintf("ptxspec %s %s %s %s %s", aggTok, strings.Join(bsp, ";"), refsTok, strings.Join(ctxs, ";"), quoteImpl(impl)),
					Nontrivial: nActive > 0, Tags: []string{"ptx", "impl:" + strings.SplitN(impl, " ", 2)[0]}, Key: op,
					Detail: map[string]any{"block": cig.Block, "agg": cig.FilterAGG}})
				if igRaw != nil {
					// the same transaction through the declaration as the database path builds it (aggregation as written)
					fcr := &fakeConn{refs: map[string]map[string]bool{"reft.refc": refSet}}
					implRaw := core.Protect(func() string {
						if _, err := igRaw.Insert(e2eCtx("src1", 7), &mu, fcr, []eth.Block{b2}); err != nil {
							return "err"
						}
						if len(fcr.copies) != 1 {
							return fmt.Sprintf("copies=%d", len(fcr.copies))
						}
						var rows []string
						for _, row := range fcr.copies[0].Rows {
							var cs []string
							for _, c := range row {
								cs = append(cs, renderVal(c))
							}
							rows = append(rows, strings.Join(cs, ","))
						}
						if len(rows) == 0 {
							return "ok"
						}
						return "ok " + strings.Join(rows, ";")
					})
					rawTok := strings.ToLower(rawAgg)
					if rawTok == "" {
						rawTok = "-"
					}
					e.Add(core.Case{Op: fmt.Sprintf("ptx %s %s %s %s", rawTok, strings.Join(bsp, ";"), refsTok, strings.Join(ctxs, ";")), Impl: implRaw,
						Oracle:     fmt.Sprintf("ptxspec %s %s %s %s %s", rawTok, strings.Join(bsp, ";"), refsTok, strings.Join(ctxs, ";"), quoteImpl(implRaw)),
						Nontrivial: nActive > 0, Tags: []string{"ptx", "declaration-from-database", "agg-as-written=" + rawAgg, "impl:" + strings.SplitN(implRaw, " ", 2)[0]},
						Key:        "raw " + op, Detail: map[string]any{"block": cig.Block, "agg": rawAgg}})
				}
				break
			}
			if prop == "C12" && l.tag == "matching" && strings.HasPrefix(impl, "ok ") {
				// the declared filters keep this log: every topic position eth_getLogs is restricted at must admit it
				verdict := "ok"
				for i, alts := range topicFilter {
					if len(alts) == 0 {
						continue
					}
					in := false
					if i < len(l.topics) {
						for _, a := range alts {
							in = in || strings.EqualFold(strings.TrimPrefix(a, "0x"), hex.EncodeToString(l.topics[i]))
						}
					}
					if !in {
						verdict = fmt.Sprintf("the filters keep the log but eth_getLogs is restricted at topic %d to %v", i, alts)
					}
				}
				e.Add(core.Case{Impl: verdict, Spec: "ok", Key: "topics-pushdown-o " + op, Nontrivial: true, Tags: []string{"topics-pushdown-oracle"},
					Detail: map[string]any{"event": ev, "topics": tt, "restriction": topicFilter}})
				if igRaw != nil {
					// the same log through the declaration as the database path builds it
					fcr := &fakeConn{refs: map[string]map[string]bool{"reft.refc": refSet}}
					implRaw := core.Protect(func() string {
						if _, err := igRaw.Insert(e2eCtx("src1", 7), &mu, fcr, []eth.Block{b2}); err != nil {
							return "err"
						}
						if len(fcr.copies) != 1 {
							return fmt.Sprintf("copies=%d", len(fcr.copies))
						}
						var rows []string
						for _, row := range fcr.copies[0].Rows {
							var cs []string
							for _, c := range row {
								cs = append(cs, renderVal(c))
							}
							rows = append(rows, strings.Join(cs, ","))
						}
						if len(rows) == 0 {
							return "ok"
						}
						return "ok " + strings.Join(rows, ";")
					})
					rawTok := strings.ToLower(rawAgg)
					if rawTok == "" {
						rawTok = "-"
					}
					opRaw := fmt.Sprintf("plog %s %s %s %s %s %s %s %s %s", rawTok, ec.desc, iflTok, strings.Join(bsp, ";"), core.Hex(sighash), refsTok, topTok, core.Hex(l.data), strings.Join(ctxs, ";"))
					e.Add(core.Case{Op: opRaw, Impl: implRaw, Nontrivial: nActive > 0, Tags: []string{"plog", "declaration-from-database", "impl:" + strings.SplitN(implRaw, " ", 2)[0]},
						Detail: map[string]any{"event": ev, "block": cig.Block, "agg": rawAgg}})
					if strings.HasPrefix(implRaw, "ok ") {
						fltr := igRaw.Filter()
						addrs := fltr.Addresses()
						in := len(addrs) == 0
						for _, a := range addrs {
							in = in || bytes.Equal(hexRef(a), laddr)
						}
						v := "ok"
						if !in {
							v = fmt.Sprintf("the filters (aggregation %q as stored) keep a log of address %x but eth_getLogs is restricted to %v", rawAgg, laddr, addrs)
						}
						e.Add(core.Case{Impl: v, Spec: "ok", Key: "pushdown-o-raw " + opRaw, Nontrivial: true, Tags: []string{"pushdown-oracle", "declaration-from-database"},
							Detail: map[string]any{"block": cig.Block, "agg": rawAgg, "log_addr": hex.EncodeToString(laddr), "pushed": addrs}})
					}
				}
			}
			if prop == "C12" && len(pushed) > 0 && l.tag == "matching" && strings.HasPrefix(impl, "ok ") {
				// the declared filters keep this log (a row was emitted); eth_getLogs is restricted to the pushed
				// addresses and matches them exactly: the log's own address must be among them or it is never fetched
				in := false
				for _, a := range pushed {
					in = in || bytes.Equal(hexRef(a), laddr)
				}
				verdict := "ok"
				if !in {
					verdict = fmt.Sprintf("the filters keep a log of address %x but eth_getLogs is restricted to %v", laddr, pushed)
				}
				e.Add(core.Case{Impl: verdict, Spec: "ok", Key: "pushdown-o " + op, Nontrivial: true, Tags: []string{"pushdown-oracle"},
					Detail: map[string]any{"block": cig.Block, "agg": cig.FilterAGG, "log_addr": hex.EncodeToString(laddr), "pushed": pushed}})
			}
			c := core.Case{Op: op, Impl: impl, Nontrivial: l.tag != "matching" || strings.HasPrefix(impl, "ok "),
				Tags:   []string{"plog", "log=" + l.tag, "impl:" + strings.SplitN(impl, " ", 2)[0], fmt.Sprintf("active-filters=%d", min(nActive, 3))},
				Detail: map[string]any{"event": ev, "block": cig.Block, "agg": cig.FilterAGG, "topics": tt, "data": core.Hex(l.data), "ig": fmt.Sprintf("%+v", ig)[:300]}}
			if prop == "C12" {
				c.Nontrivial = nActive > 0
			}
			// spec oracle (Lean Spec.Row): what the property demands for this log
			if l.tag != "truncated-data" && !(l.tag == "no-data" && len(data) > 0) {
				val := ec.val
				c.Oracle = fmt.Sprintf("plogspec %s %s %s %s %s %s %s", declToks, core.Hex(keccak([]byte(canon))), refsTok, topTok, val, strings.Join(ctxs, ";"), quoteImpl(impl))
				if l.tag == "no-data" {
					c.Oracle = ""
				}
			}
			e.Add(c)
		}
	}
	if prop == "C12" {
		// filters on INDEXED address inputs (the common "transfers to X" declaration), with the earlier indexed
		// input selected or not: whatever topic restriction is sent with eth_getLogs must admit every log
		// the declared filters keep (the source applies it position by position)
		x, y := r.Bytes(20), r.Bytes(20)
		pad := func(a []byte) []byte { return append(make([]byte, 12), a...) }
		for vi := 0; vi < 16; vi++ {
			selFrom, filterOnFrom, aggAnd, two := vi&1 == 1, vi&2 == 2, vi&4 == 4, vi&8 == 8
			from := dig.Input{Name: "from", Type: "address", Indexed: true}
			to := dig.Input{Name: "to", Type: "address", Indexed: true, Column: "t"}
			val := dig.Input{Name: "value", Type: "uint256", Column: "v"}
			cols := []wpg.Column{{Name: "t", Type: "bytea"}, {Name: "v", Type: "numeric"}}
			if selFrom {
				from.Column = "f"
				cols = append(cols, wpg.Column{Name: "f", Type: "bytea"})
			}
			args := []string{"0x" + hex.EncodeToString(x)}
			if two {
				args = append(args, "0x"+hex.EncodeToString(r.Bytes(20)))
			}
			flt := dig.Filter{Op: core.Pick(r, []string{"contains", "eq"}), Arg: args}
			if filterOnFrom && selFrom {
				from.Filter = flt
			} else {
				to.Filter = flt
			}
			ev := dig.Event{Name: "Transfer", Type: "event", Inputs: []dig.Input{from, to, val}}
			agg := "or"
			if aggAnd {
				agg = "and"
			}
			ig, _, err := buildIG("igx", "tx1", nil, &ev, cols, agg, nil)
			if err != nil {
				e.Add(core.Case{Impl: "config-rejected: " + err.Error(), Spec: "accepted", Key: fmt.Sprintf("c12-indexed-cfg %d", vi), Tags: []string{"config-rejected"}})
				continue
			}
			fl := ig.Filter()
			restr := fl.Topics()
			// two logs: the filtered position carries X (kept), the other position carries Y
			fromW, toW := pad(y), pad(x)
			if filterOnFrom && selFrom {
				fromW, toW = pad(x), pad(y)
			}
			lg := eth.Log{Idx: 1, Address: r.Bytes(20), Data: append(make([]byte, 31), 7)}
			for _, t := range [][]byte{ev.SignatureHash(), fromW, toW} {
				lg.Topics = append(lg.Topics, t)
			}
			blk, _ := makeItem(r)
			blk.Txs[0].Logs = eth.Logs{lg}
			fc := &fakeConn{}
			var mu sync.Mutex
			kept := core.Protect(func() string {
				if _, err := ig.Insert(e2eCtx("src1", 7), &mu, fc, []eth.Block{blk}); err != nil {
					return "err"
				}
				if len(fc.copies) == 1 && len(fc.copies[0].Rows) == 1 {
					return "kept"
				}
				return "dropped"
			})
			verdict := "ok"
			if kept == "kept" {
				for i, alts := range restr {
					if len(alts) == 0 {
						continue
					}
					in := false
					if i < len(lg.Topics) {
						for _, a := range alts {
							in = in || strings.EqualFold(strings.TrimPrefix(a, "0x"), hex.EncodeToString(lg.Topics[i]))
						}
					}
					if !in {
						verdict = fmt.Sprintf("the filters keep the log (topics %x) but eth_getLogs is restricted at topic %d to %v", lg.Topics, i, alts)
					}
				}
			}
			e.Add(core.Case{Impl: kept, Spec: "kept", Key: fmt.Sprintf("c12-indexed-kept %d", vi), Nontrivial: true, Tags: []string{"indexed-address-filter"}})
			e.Add(core.Case{Impl: verdict, Spec: "ok", Key: fmt.Sprintf("c12-indexed-topics %d", vi), Nontrivial: true, Tags: []string{"indexed-address-filter", "topics-pushdown-oracle"},
				Detail: map[string]any{"event": ev, "agg": agg, "restriction": restr}})
		}
	}
	if prop == "C12" {
		// a LONG address list (token lists run to thousands of contracts): every declared address is part of the
		// restriction sent to the source, so a log of the last one is still returned by eth_getLogs
		var args []string
		var last []byte
		for i := 0; i < 1003; i++ {
			last = simnode.Derive("manyaddr", uint64(i))[:20]
			args = append(args, "0x"+hex.EncodeToString(last))
		}
		ig, _, err := buildIG("igmany", "tmany", []string{"log_addr"}, &transferEvent, transferCols, "and", func(ci *config.Integration) {
			for j := range ci.Block {
				if ci.Block[j].Name == "log_addr" {
					ci.Block[j].Filter = dig.Filter{Op: "contains", Arg: args}
				}
			}
		})
		verdict := "ok"
		if err != nil {
			verdict = "config-rejected: " + err.Error()
		} else {
			fl := ig.Filter()
			pushed := fl.Addresses()
			in := len(pushed) == 0
			for _, a := range pushed {
				in = in || strings.EqualFold(strings.TrimPrefix(a, "0x"), hex.EncodeToString(last))
			}
			if !in {
				verdict = fmt.Sprintf("the filter lists %d addresses and accepts logs of the last one, eth_getLogs is restricted to %d addresses without it", len(args), len(pushed))
			}
		}
		e.Add(core.Case{Impl: verdict, Spec: "ok", Key: "c12-many-addresses", Nontrivial: true, Tags: []string{"pushdown-oracle", "long-address-list"}})
	}
	if prop == "C12" {
		// the operator x argument-list grid on a byte-string value (deterministic: every run has every cell):
		// one / several arguments, the value among them first, last or not at all; the reference verdict is
		// computed here (eq: some argument equals; ne: none equals; contains: some argument occurs in the value;
		// !contains: none does)
		v, o1, o2 := r.Bytes(20), r.Bytes(20), r.Bytes(20)
		hx := func(b []byte) string { return "0x" + hex.EncodeToString(b) }
		argLists := map[string][]string{"v": {hx(v)}, "o": {hx(o1)}, "v,o": {hx(v), hx(o1)}, "o,v": {hx(o1), hx(v)}, "o,o": {hx(o1), hx(o2)}, "o,o,v": {hx(o1), hx(o2), hx(v)},
			"frag": {hx(v[3:9])}, "o,frag": {hx(o1), hx(v[5:20])}}
		names := []string{"v", "o", "v,o", "o,v", "o,o", "o,o,v", "frag", "o,frag"}
		for _, op := range []string{"eq", "ne", "contains", "!contains"} {
			for _, an := range names {
				args := argLists[an]
				eqAny, inAny := false, false
				for _, a := range args {
					ab, _ := hex.DecodeString(a[2:])
					eqAny = eqAny || bytes.Equal(ab, v)
					inAny = inAny || bytes.Contains(v, ab)
				}
				want := map[string]bool{"eq": eqAny, "ne": !eqAny, "contains": inAny, "!contains": !inAny}[op]
				to := dig.Input{Name: "to", Type: "address", Indexed: true, Column: "t", Filter: dig.Filter{Op: op, Arg: args}}
				ev := dig.Event{Name: "Transfer", Type: "event", Inputs: []dig.Input{{Name: "from", Type: "address", Indexed: true}, to, {Name: "value", Type: "uint256", Column: "v"}}}
				ig, _, err := buildIG("igg", "tg", nil, &ev, []wpg.Column{{Name: "t", Type: "bytea"}, {Name: "v", Type: "numeric"}}, "and", nil)
				if err != nil {
					e.Add(core.Case{Impl: "config-rejected: " + err.Error(), Spec: "accepted", Key: "c12-grid-cfg " + op + " " + an, Tags: []string{"config-rejected"}})
					continue
				}
				lg := eth.Log{Idx: 1, Address: r.Bytes(20), Data: append(make([]byte, 31), 9)}
				for _, t := range [][]byte{ev.SignatureHash(), append(make([]byte, 12), o2...), append(make([]byte, 12), v...)} {
					lg.Topics = append(lg.Topics, t)
				}
				blk, _ := makeItem(r)
				blk.Txs[0].Logs = eth.Logs{lg}
				fc := &fakeConn{}
				var mu sync.Mutex
				got := core.Protect(func() string {
					if _, err := ig.Insert(e2eCtx("src1", 7), &mu, fc, []eth.Block{blk}); err != nil {
						return "err"
					}
					if len(fc.copies) == 1 && len(fc.copies[0].Rows) == 1 {
						return "kept"
					}
					return "dropped"
				})
				spec := "dropped"
				if want {
					spec = "kept"
				}
				e.Add(core.Case{Impl: got, Spec: spec, Key: "c12-grid " + op + " " + an, Nontrivial: true, Tags: []string{"operator-argument-grid", "op=" + op}})
			}
		}
		// transaction declarations with TWO filtered fields, every accept / reject combination, under each
		// aggregation — as the file path builds them (ValidateFix) and as the database path does (dig.New on the
		// stored form: the aggregation as written, "" meaning the default "or")
		for _, agg := range []string{"", "or", "and"} {
			for _, viaDB := range []bool{false, true} {
				for combo := 0; combo < 4; combo++ {
					acc1, acc2 := combo&1 == 1, combo&2 == 2
					blk, _ := makeItem(r)
					blk.Txs[0].To, blk.Txs[0].From = r.Bytes(20), r.Bytes(20)
					arg := func(actual []byte, accept bool) []string {
						if accept {
							return []string{hx(actual)}
						}
						return []string{hx(r.Bytes(20))}
					}
					_, cig, err := buildIG("igt", "tt", []string{"tx_to", "tx_signer", "tx_hash"}, nil, nil, agg, func(ci *config.Integration) {
						for j := range ci.Block {
							switch ci.Block[j].Name {
							case "tx_to":
								ci.Block[j].Filter = dig.Filter{Op: "eq", Arg: arg(blk.Txs[0].To, acc1)}
							case "tx_signer":
								ci.Block[j].Filter = dig.Filter{Op: "eq", Arg: arg(blk.Txs[0].From, acc2)}
							}
						}
					})
					if err != nil {
						e.Add(core.Case{Impl: "config-rejected: " + err.Error(), Spec: "accepted", Key: fmt.Sprintf("c12-txgrid-cfg %q %d", agg, combo), Tags: []string{"config-rejected"}})
						continue
					}
					useAgg := cig.FilterAGG // what ValidateFix made of it
					if viaDB {
						useAgg = agg // the stored form: as written
					}
					igx, err := dig.New(cig.Name, cig.Event, cig.Block, cig.Table, cig.Notification, useAgg)
					if err != nil {
						e.Add(core.Case{Impl: "dig.New: " + err.Error(), Spec: "accepted", Key: fmt.Sprintf("c12-txgrid-new %q %d %v", agg, combo, viaDB), Tags: []string{"config-rejected"}})
						continue
					}
					fc := &fakeConn{}
					var mu sync.Mutex
					got := core.Protect(func() string {
						if _, err := igx.Insert(e2eCtx("src1", 7), &mu, fc, []eth.Block{blk}); err != nil {
							return "err"
						}
						if len(fc.copies) == 1 && len(fc.copies[0].Rows) == 1 {
							return "kept"
						}
						return "dropped"
					})
					want := acc1 || acc2
					if agg == "and" {
						want = acc1 && acc2
					}
					spec := "dropped"
					if want {
						spec = "kept"
					}
					e.Add(core.Case{Impl: got, Spec: spec, Key: fmt.Sprintf("c12-txgrid %q %v %v database-path=%v", agg, acc1, acc2, viaDB), Nontrivial: true,
						Tags: []string{"tx-two-filters-grid", "agg=" + agg, fmt.Sprintf("database-path=%v", viaDB)}})
				}
			}
		}
	}
	{
		// integrations of one source share one caching client (C11: the stored values, C12: no log the
		// filters keep is lost on the way, C13: a matching log yields its row)
		chain := transferChain(5, 3+e.Seed%5)
		node := simnode.NewNode(chain)
		e2eSharedClient(e, node, chain)
		node.Close()
	}
	if prop == "C11" {
		if err := runInsertBatches(e); err != nil {
			return err
		}
		// the whole path: JSON-RPC node -> jrpc2.Client.Get -> Integration.Insert -> COPY rows, for log,
		// transaction and trace declarations (two logs and two trace actions with distinct values in
		// every transaction); every stored column is compared with the node's own value of the field
		// it names. Values are rendered when COPY drains the row source, as pgx does.
		chain := transferChain(5, 1+e.Seed%7)
		node := simnode.NewNode(chain)
		defer node.Close()
		var sets [][]string
		for _, f := range allFields {
			sets = append(sets, []string{f})
		}
		for i := 0; i < e.N(60, 1500); i++ {
			var fs []string
			p := 1 + r.Intn(6)
			for _, f := range allFields {
				if r.Intn(8) < p {
					fs = append(fs, f)
				}
			}
			if len(fs) > 0 {
				sets = append(sets, fs)
			}
		}
		for _, fs := range sets {
			mode, ok := modeFor(fs)
			if !ok {
				continue
			}
			modes := []string{mode}
			if mode == "tx" && r.Chance(1, 3) {
				modes = append(modes, "log")
			}
			for _, m := range modes {
				upper := r.Chance(1, 3) // the node writes its hex strings with the digits A-F
				simnode.UpperDigits.Store(upper)
				res, detail := e2eFields(node, chain, m, fs)
				simnode.UpperDigits.Store(false)
				e.Add(core.Case{Impl: res, Spec: "ok", Key: fmt.Sprintf("e2e %s %s upper=%v", m, strings.Join(fs, ","), upper), Nontrivial: true,
					Tags: []string{"e2e", "mode=" + m, fmt.Sprintf("node-writes-upper-case-hex=%v", upper)}, Detail: detail})
			}
		}
	}
	return nil
}

func quoteImpl(s string) string { return strings.ReplaceAll(s, " ", "#") }

// respell: the same hex argument in another accepted spelling — upper-case or mixed-case digits (EIP-55
// checksummed addresses are written that way), the 0X prefix
func respell(r *core.Rand, a string) string {
	switch r.Intn(5) {
	case 0:
		b := []byte(a)
		for k := range b {
			if b[k] >= 'a' && b[k] <= 'f' && r.Bool() {
				b[k] -= 'a' - 'A'
			}
		}
		return string(b)
	case 1:
		if strings.HasPrefix(a, "0x") {
			return "0X" + strings.ToUpper(a[2:])
		}
	}
	return a
}

// hexRef: the bytes a well-formed hex argument denotes (nil when it is not well formed)
func hexRef(a string) []byte {
	if len(a) >= 2 && (a[:2] == "0x" || a[:2] == "0X") {
		a = a[2:]
	}
	if len(a)%2 == 1 {
		a = "0" + a
	}
	b, err := hex.DecodeString(a)
	if err != nil {
		return nil
	}
	return b
}
