package props

import (
	"encoding/hex"
	"fmt"
	"math/big"
	"strings"

	"github.com/goccy/go-json"
	"github.com/indexsupply/shovel/bint"
	"github.com/indexsupply/shovel/eth"

	"verifharness/core"
)

func init() {
	Registry["C17"] = runC17
	Rules["C17"] = "tokens: every string of length 0..4 (quick) / 0..6 (thorough) over the hostile alphabet {\",0,x,1,9,a,F,g,z,n,u,l} exhaustively, plus random uint64 values in all spellings (case mix, leading zeros, 1..20 digits), byte strings up to 8 KiB decoded in sequences into ONE reused destination, bint pads 0..32 x boundary values; a case is non-trivial when it is a 0x-prefixed quoted token or a bint/bytes op; distinct by op line"
}

func isHexCh(c byte) bool {
	return c >= '0' && c <= '9' || c >= 'a' && c <= 'f' || c >= 'A' && c <= 'F'
}

// independent reference for "0x…" quoted tokens (math/big, not the code under test)
func specU64(tok []byte) string {
	if len(tok) < 4 || tok[0] != '"' || tok[len(tok)-1] != '"' || tok[1] != '0' || tok[2] != 'x' {
		return ""
	}
	body := tok[3 : len(tok)-1]
	for _, c := range body {
		if !isHexCh(c) {
			return "err"
		}
	}
	if len(body) == 0 {
		return "" // "0x": the property does not say
	}
	v, _ := new(big.Int).SetString(string(body), 16)
	if v.BitLen() > 64 {
		return "" // not a 64-bit quantity: property silent (model: error)
	}
	return "ok " + v.String()
}

func specBytes(tok []byte) string {
	if len(tok) < 4 || tok[0] != '"' || tok[len(tok)-1] != '"' || tok[1] != '0' || tok[2] != 'x' {
		return ""
	}
	body := tok[3 : len(tok)-1]
	for _, c := range body {
		if !isHexCh(c) {
			return "err"
		}
	}
	if len(body)%2 == 1 {
		return "err"
	}
	b, _ := hex.DecodeString(string(body))
	return "ok " + core.Hex(b)
}

func implU64(tok []byte) string {
	return core.Protect(func() string {
		var n eth.Uint64
		if err := n.UnmarshalJSON(append([]byte(nil), tok...)); err != nil {
			return "err"
		}
		return fmt.Sprintf("ok %d", uint64(n))
	})
}

func runC17(e *core.Env) error {
	r := e.Rand
	addU64 := func(tok []byte, tag string) {
		spec := specU64(tok)
		e.Add(core.Case{Op: "u64 " + core.Hex(tok), Impl: implU64(tok), Spec: spec,
			PanicOnly:  spec == "" && !(len(tok) >= 4 && tok[1] == '0' && tok[2] == 'x'),
			Nontrivial: len(tok) >= 4 && tok[1] == '0' && tok[2] == 'x', Tags: []string{"u64", tag, "u64-spec:" + strings.SplitN(spec+" ", " ", 2)[0]}})
	}
	// destination reused across the whole run for byte strings
	var dst eth.Bytes
	addBytes := func(tok []byte, tag string) {
		old := append([]byte(nil), dst...)
		impl := core.Protect(func() string {
			if err := dst.UnmarshalJSON(append([]byte(nil), tok...)); err != nil {
				return "err"
			}
			return "ok " + core.Hex(dst)
		})
		spec := specBytes(tok)
		e.Add(core.Case{Op: "bytes " + core.Hex(old) + " " + core.Hex(tok), Impl: impl, Spec: spec,
			PanicOnly: spec == "", Nontrivial: spec != "", Tags: []string{"bytes", tag, "bytes-spec:" + strings.SplitN(spec+" ", " ", 2)[0]},
			Key: "bytes " + core.Hex(tok)})
	}
	// 1. exhaustive hostile tokens
	alpha := []byte{'"', '0', 'x', '1', '9', 'a', 'F', 'g', 'z', 'n', 'u', 'l'}
	maxLen := e.N(4, 6)
	var rec func(cur []byte)
	rec = func(cur []byte) {
		addU64(cur, "exhaustive")
		if len(cur) <= 4 || len(cur)%2 == 0 {
			// byte-string decoder: every short token, longer ones thinned (it shares the lexing prefix)
			addBytes(cur, "exhaustive")
		}
		if len(cur) == maxLen {
			return
		}
		for _, c := range alpha {
			rec(append(cur[:len(cur):len(cur)], c))
		}
	}
	rec(nil)
	addU64([]byte("null"), "null")
	addBytes([]byte("null"), "null")
	// quoted 0x tokens with hostile bodies of length 0..3 (quick) / 0..4 (thorough): exhaustive
	var rec2 func(cur []byte, left int)
	rec2 = func(cur []byte, left int) {
		tok := append(append([]byte(`"0x`), cur...), '"')
		addU64(tok, "quoted-exhaustive")
		addBytes(tok, "quoted-exhaustive")
		if left == 0 {
			return
		}
		for _, c := range alpha {
			rec2(append(cur[:len(cur):len(cur)], c), left-1)
		}
	}
	rec2(nil, e.N(3, 4))
	// 2. random uint64 in all spellings
	boundary := []uint64{0, 1, 15, 16, 255, 256, 1<<32 - 1, 1 << 32, 1<<60 - 1, 1 << 60, 1<<63 - 1, 1 << 63, 1<<64 - 1}
	for i := 0; i < e.N(3000, 60000); i++ {
		var v uint64
		switch r.Intn(4) {
		case 0:
			v = core.Pick(r, boundary)
		case 1:
			v = r.U64() >> uint(r.Intn(64))
		default:
			v = r.U64()
		}
		s := fmt.Sprintf("%x", v)
		s = strings.Repeat("0", r.Intn(4)*r.Intn(4)) + s
		if r.Chance(1, 8) { // make it overflow / long
			s = fmt.Sprintf("%x", r.U64()|1<<63) + s
		}
		b := []byte(s)
		for j := range b {
			if r.Bool() {
				b[j] = strings.ToUpper(string(b[j]))[0]
			}
		}
		if r.Chance(1, 6) && len(b) > 0 { // inject a bad character anywhere (also beyond position 16)
			b[r.Intn(len(b))] = core.Pick(r, []byte("gzGZ xX-+.\x00\xff"))
		}
		tok := append(append([]byte(`"0x`), b...), '"')
		addU64(tok, "random-value")
		// JSON glue: the same token through goccy/go-json into a struct field
		if i%10 == 0 {
			var dstS struct {
				N eth.Uint64 `json:"n"`
			}
			glue := core.Protect(func() string {
				if err := json.Unmarshal(append(append([]byte(`{"n":`), tok...), '}'), &dstS); err != nil {
					return "err"
				}
				return fmt.Sprintf("ok %d", uint64(dstS.N))
			})
			direct := implU64(tok)
			if strings.ContainsAny(string(b), "\x00\xff") {
				continue // not valid JSON string content; the lexer rejects before our code runs
			}
			e.Add(core.Case{Op: "", Impl: glue, Spec: direct, Nontrivial: false, Tags: []string{"u64-json-glue"}, Key: "glue" + string(tok)})
		}
	}
	// 3. byte strings, sequences into one destination (reuse), either case, sizes to 8 KiB
	for i := 0; i < e.N(1500, 20000); i++ {
		n := 0
		switch r.Intn(5) {
		case 0:
			n = r.Intn(4)
		case 1:
			n = 20 + r.Intn(13)
		case 2:
			n = r.Intn(300)
		case 3:
			n = r.Intn(e.N(2048, 8192))
		default:
			n = 32
		}
		s := []byte(hex.EncodeToString(r.Bytes(n)))
		for j := range s {
			if r.Chance(1, 3) {
				s[j] = strings.ToUpper(string(s[j]))[0]
			}
		}
		switch r.Intn(12) {
		case 0:
			s = append(s, core.Pick(r, []byte("0aF"))) // odd
		case 1:
			if len(s) > 0 {
				s[r.Intn(len(s))] = core.Pick(r, []byte("gxZ "))
			}
		}
		addBytes(append(append([]byte(`"0x`), s...), '"'), "random-bytes")
		if r.Chance(1, 5) { // interleave Write into the same destination
			p := r.Bytes(r.Intn(70))
			old := append([]byte(nil), dst...)
			dst.Write(p)
			e.Add(core.Case{Op: "bwrite " + core.Hex(old) + " " + core.Hex(p), Impl: core.Hex(dst), Spec: core.Hex(p), Nontrivial: true, Tags: []string{"bwrite"}})
			// Write COPIES: scribbling over the source afterwards must not change the destination
			// (neither a reused one nor a fresh, empty one)
			if len(p) > 0 {
				var fresh eth.Bytes
				fresh.Write(p)
				want := core.Hex(p)
				for i := range p {
					p[i] ^= 0xff
				}
				e.Add(core.Case{Impl: core.Hex(dst), Spec: want, Key: "bwrite-alias " + core.Hex(old) + " " + want, Nontrivial: true, Tags: []string{"bwrite-no-alias"}})
				e.Add(core.Case{Impl: core.Hex(fresh), Spec: want, Key: "bwrite-alias-fresh " + want, Nontrivial: true, Tags: []string{"bwrite-no-alias"}})
			}
		}
	}
	// 3b. eth.DecodeHex (filter arguments, pushed-down addresses): optional 0x/0X prefix, odd length padded
	// on the left, every leading zero byte kept
	{
		alphabet := []string{"00", "0", "01", "ab", "F", "000", "0x", "x", "g", "7f"}
		var ss []string
		for _, pre := range []string{"", "0x", "0X", "0x0x", "00x"} {
			ss = append(ss, pre)
			for i := 0; i < e.N(40, 400); i++ {
				s := pre
				for k, n := 0, r.Intn(6); k < n; k++ {
					s += core.Pick(r, alphabet)
				}
				ss = append(ss, s)
			}
			for _, n := range []int{1, 2, 19, 20, 32} { // zero-prefixed addresses / words
				b := r.Bytes(n)
				b[0] = 0
				if n > 2 {
					b[1] = 0
				}
				ss = append(ss, pre+hex.EncodeToString(b))
			}
		}
		for _, s := range ss {
			impl := core.Protect(func() string { return "ok " + core.Hex(eth.DecodeHex(s)) })
			// independent reference
			t := s
			if len(t) >= 2 && t[0] == '0' && (t[1] == 'x' || t[1] == 'X') {
				t = t[2:]
			}
			if len(t)%2 == 1 {
				t = "0" + t
			}
			var ref []byte
			for i := 0; i+1 < len(t); i += 2 {
				hi, lo := strings.IndexByte("0123456789abcdef", lower(t[i])), strings.IndexByte("0123456789abcdef", lower(t[i+1]))
				if hi < 0 || lo < 0 {
					break
				}
				ref = append(ref, byte(hi*16+lo))
			}
			e.Add(core.Case{Op: "dechex " + core.Hex([]byte(s)), Impl: impl, Spec: "ok " + core.Hex(ref), Nontrivial: true, Tags: []string{"dechex"}})
		}
	}
	// 3c. eth.DecodeUint64 / eth.EncodeUint64 (every request names its blocks through the latter): any
	// spelling of a quantity (prefix 0x / 0X / none, either case, leading zeros, odd or even digit count),
	// the empty string, non-hex characters, values beyond 64 bits; reference = strconv on the stripped digits
	{
		var ss []string
		for _, v := range boundary {
			for _, f := range []string{"%x", "%X", "0%x", "00%x", "000%X"} {
				d := fmt.Sprintf(f, v)
				for _, pre := range []string{"", "0x", "0X"} {
					ss = append(ss, pre+d)
				}
			}
		}
		for i := 0; i < e.N(150, 3000); i++ {
			v := r.U64() >> uint(r.Intn(64))
			d := fmt.Sprintf(core.Pick(r, []string{"%x", "%X", "0%x"}), v)
			ss = append(ss, core.Pick(r, []string{"", "0x", "0X"})+d)
		}
		ss = append(ss, "", "0x", "0X", "x", "0x0x1", "0xg", "g", "0x1g", "0x-1", "+1", "0x_1", "0x1_0", "10000000000000000", "0x10000000000000000", "0xffffffffffffffffff", " 1", "0x 1")
		for _, s := range ss {
			impl := core.Protect(func() string { return fmt.Sprintf("ok %d", eth.DecodeUint64(s)) })
			t := s
			if len(t) >= 2 && t[0] == '0' && (t[1] == 'x' || t[1] == 'X') {
				t = t[2:]
			}
			ref := "panic"
			if v, ok := new(big.Int).SetString(t, 16); ok && t != "" && !strings.ContainsAny(t, "+-_ ") && v.IsUint64() {
				ref = fmt.Sprintf("ok %d", v.Uint64())
			}
			e.Add(core.Case{Op: "decu64 " + core.Hex([]byte(s)), Impl: impl, Spec: ref, Nontrivial: true, Tags: []string{"decu64", strings.SplitN(impl, " ", 2)[0]}})
		}
		vals := append([]uint64{}, boundary...)
		for i := 0; i < e.N(150, 3000); i++ {
			vals = append(vals, r.U64()>>uint(r.Intn(64)))
		}
		for _, v := range vals {
			impl := core.Protect(func() string { return "ok " + eth.EncodeUint64(v) })
			e.Add(core.Case{Op: fmt.Sprintf("encu64 %d", v), Impl: impl, Spec: "ok 0x" + new(big.Int).SetUint64(v).Text(16), Nontrivial: true, Tags: []string{"encu64"}})
		}
	}
	// 4. bint
	vals := append([]uint64{}, boundary...)
	for i := 0; i < e.N(300, 5000); i++ {
		vals = append(vals, r.U64()>>uint(r.Intn(64)))
	}
	for _, v := range vals {
		for pad := -1; pad <= 32; pad++ {
			if pad > 9 && pad != 20 && pad != 32 && !e.Thorough() {
				continue
			}
			impl := core.Protect(func() string {
				var buf []byte
				if pad >= 0 {
					buf = make([]byte, pad)
				}
				return "ok " + core.Hex(bint.Encode(buf, v))
			})
			spec := ""
			if strings.HasPrefix(impl, "ok") { // round trip through the real Decode
				b, _ := hex.DecodeString(strings.TrimPrefix(strings.TrimPrefix(impl, "ok "), "-"))
				if bint.Decode(b) != v {
					spec = "roundtrip-broken"
				}
			}
			c := core.Case{Op: fmt.Sprintf("benc %d %d", pad, v), Impl: impl, Nontrivial: true, Tags: []string{"benc", strings.SplitN(impl, " ", 2)[0]}}
			if spec != "" {
				c.Spec = spec
			}
			e.Add(c)
			// independent reference: with no buffer, or a buffer at least as long as the value's minimal
			// big-endian form, Encode yields that form left-padded with zeros to the buffer's length
			ref := new(big.Int).SetUint64(v).Bytes()
			if v == 0 {
				ref = []byte{0} // zero is one zero byte
			}
			if pad < 0 || pad >= len(ref) {
				want := ref
				if pad > len(ref) {
					want = append(make([]byte, pad-len(ref)), ref...)
				}
				e.Add(core.Case{Impl: impl, Spec: "ok " + core.Hex(want), Key: fmt.Sprintf("benc-ref %d %d", pad, v), Nontrivial: true, Tags: []string{"benc-reference"}})
			}
		}
	}
	for i := 0; i < e.N(2000, 30000); i++ {
		b := r.Bytes(r.Intn(40))
		if r.Chance(1, 3) {
			b = append(make([]byte, r.Intn(30)), b...)
		}
		want := new(big.Int).SetBytes(b)
		want.And(want, new(big.Int).SetUint64(^uint64(0)))
		e.Add(core.Case{Op: "bdec " + core.Hex(b), Impl: fmt.Sprint(bint.Decode(b)), Spec: want.String(), Nontrivial: true, Tags: []string{"bdec"}})
	}
	return nil
}

func lower(c byte) byte {
	if c >= 'A' && c <= 'F' {
		return c + 32
	}
	return c
}
