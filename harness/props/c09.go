package props

import (
	"encoding/hex"
	"fmt"
	"github.com/indexsupply/shovel/eth"
	"github.com/indexsupply/shovel/shovel/config"
	"github.com/indexsupply/shovel/wpg"
	"math/big"
	"strings"
	"sync"
	"time"
	"unsafe"

	"github.com/indexsupply/shovel/dig"

	"verifharness/core"
)

func init() {
	Registry["C09"] = func(e *core.Env) error { return runABI(e, "C09") }
	Registry["C10"] = func(e *core.Env) error { return runABI(e, "C10") }
	Rules["C09"] = "random event declarations (type trees of depth <= 4: uintN/intN/address/bool/bytesN/bytes/string, T[k] with k in 1..33 incl. k>=10, T[], tuples, tuple arrays, arrays of dynamic elements; random selection of leaves) x random values incl. empty arrays/strings; the value is ABI-encoded by the Lean Spec `enc` and the rows demanded by the row rule `rowsOf` are compared with what the real Result.Scan returns; several encodings (some with trailing bytes) go through ONE reused Result; the parsed type (Event.ABIType) is compared with the model's parser. non-trivial = at least one selected leaf and a non-empty encoding; distinct by (declaration, encoding)"
	Rules["C10"] = "for each random declaration: random byte strings, truncations of valid encodings, and valid encodings with each 32-byte word replaced in turn by boundary values (2^63, 2^64-32, len, len-31, len+-1, 2^256-1, ...), each with cap=len and cap=len+64; the real scanner runs under recover with over-read detection by pointer range and a row-count bound; outcome compared with the model's ok/err/panic/overread. non-trivial = hostile input on a declaration with a selected leaf; distinct by (declaration, bytes, cap)"
}

// scanReal runs one input through the (reused) real decoder with an exactly known backing array.
func scanReal(res *dig.Result, data []byte, capx int) (out string, rows int) {
	backing := make([]byte, len(data)+capx)
	copy(backing, data)
	for i := len(data); i < len(backing); i++ {
		backing[i] = 0xEE
	}
	input := backing[:len(data):len(backing)]
	lo := uintptr(unsafe.Pointer(unsafe.SliceData(backing)))
	hi := lo + uintptr(len(data))
	if stuck[res] {
		return "timeout", 0 // a scan through this decoder never returned: it is still running, the decoder is not reused
	}
	t0 := time.Now()
	done := make(chan string, 1)
	go func() { done <- scanBody(res, input, lo, hi, &rows) }()
	select {
	case out = <-done:
	case <-time.After(8 * time.Second):
		stuck[res] = true
		return "timeout", 0
	}
	if time.Since(t0) > 2*time.Second {
		out = "timeout"
	}
	return out, rows
}

// stuck: decoders with a scan that did not return within the time allowed
var stuck = map[*dig.Result]bool{}

func scanBody(res *dig.Result, input []byte, lo, hi uintptr, nrows *int) string {
	return core.Protect(func() string {
		rows := 0
		defer func() { *nrows = rows }()
		if err := res.Scan(input); err != nil {
			return "err"
		}
		var sb strings.Builder
		sb.WriteString("ok ")
		rows = res.Len()
		for i := 0; i < res.Len(); i++ {
			if i > 0 {
				sb.WriteString(";")
			}
			row := res.At(i)
			for j := range row {
				if j > 0 {
					sb.WriteString(",")
				}
				c := row[j]
				if len(c) > 0 {
					p := uintptr(unsafe.Pointer(unsafe.SliceData(c)))
					if p < lo || p+uintptr(len(c)) > hi {
						return "overread"
					}
				}
				sb.WriteString(core.Hex(c))
			}
		}
		return sb.String()
	})
}

func arrDepth(t *aty) int {
	switch t.kind {
	case 'a':
		return 1 + arrDepth(t.elem)
	case 't':
		d := 0
		for _, f := range t.fields {
			d = max(d, arrDepth(f))
		}
		return d
	}
	return 0
}

func word(n *big.Int) []byte {
	b := make([]byte, 32)
	n.FillBytes(b)
	return b
}

func runABI(e *core.Env, prop string) error {
	r := e.Rand
	nEvents := e.N(250, 4000)
	type evCase struct {
		inputs []*aty
		desc   string
		vals   []string
	}
	var evs []evCase
	var encOps []string
	for i := 0; i < nEvents; i++ {
		g := &abiGen{r: r.Fork(), selP: 3 + r.Intn(5), maxK: 33, allowT: r.Chance(1, 12)}
		ins := g.event(4)
		ec := evCase{inputs: ins, desc: descOf(ins)}
		for j := 0; j < 3; j++ {
			v := g.dataValue(ins)
			ec.vals = append(ec.vals, v)
			encOps = append(encOps, "enc "+ec.desc+" "+v)
		}
		evs = append(evs, ec)
	}
	encOut, err := core.RunDriver(e.Driver, encOps)
	if err != nil {
		return err
	}
	if prop == "C09" {
		bigArrays(e)
	}
	bigs := func(n int) []*big.Int {
		two := big.NewInt(2)
		p := func(k int64) *big.Int { return new(big.Int).Exp(two, big.NewInt(k), nil) }
		sub := func(a *big.Int, b int64) *big.Int { return new(big.Int).Sub(a, big.NewInt(b)) }
		return []*big.Int{p(63), sub(p(63), 1), sub(p(64), 32), sub(p(64), 1), p(64), sub(p(256), 1), p(255), big.NewInt(int64(n)), big.NewInt(int64(n) - 31),
			big.NewInt(int64(n) - 32), big.NewInt(int64(n) + 1), big.NewInt(int64(n) - 1), big.NewInt(0), big.NewInt(32), big.NewInt(31), big.NewInt(1 << 32), p(62), big.NewInt(int64(n) + 32), new(big.Int).Add(p(64), big.NewInt(32)), sub(p(63), 32),
			// lengths whose product with an element size (32, 64, ...) wraps around 2^64 to something small
			p(58), new(big.Int).Add(p(58), big.NewInt(1)), p(59), new(big.Int).Add(p(59), big.NewInt(1)), new(big.Int).Add(p(59), big.NewInt(2)), p(60), p(61), new(big.Int).Add(p(61), big.NewInt(3)),
			// lengths a machine can actually iterate over but the data cannot hold
			big.NewInt(1 << 16), big.NewInt(1 << 18), big.NewInt(int64(n)*8 + 1)}
	}
	k := 0
	for _, ec := range evs {
		if e.OverBudget() {
			break // (a change that makes decoding slow: what was explored so far is evaluated)
		}
		ev := eventOf("E", ec.inputs)
		// parser correspondence (C09 parse side)
		implTy := core.Protect(func() string { return "ok " + dig.VerifEventType(ev) })
		nsel := 0
		for _, in := range ec.inputs {
			if !in.indexed {
				nsel += countSel(in)
			}
		}
		if prop == "C09" {
			e.Add(core.Case{Op: "abitype " + ec.desc, Impl: implTy, Nontrivial: true, Tags: []string{"abitype"}})
		}
		if strings.HasPrefix(implTy, "panic") {
			continue
		}
		// C10 at the level a log is actually processed: the same valid, truncated and hostile data is also
		// pushed through the real Integration.Insert (gate, Scan, row building, value conversion) - a log
		// must yield rows or an error, never a crash of the indexing goroutine
		var insertIG, insertIGF *dig.Integration
		nIndexed := 0
		if prop == "C10" && nsel > 0 {
			var leaves []*aty
			for _, in := range ec.inputs {
				collectLeaves(in, &leaves)
				if in.indexed {
					nIndexed++
				}
			}
			var cols []wpg.Column
			for _, lf := range leaves {
				cols = append(cols, wpg.Column{Name: lf.col, Type: "bytea"})
			}
			evc := ev
			if ig, _, err := buildIG("ig1", "t1", nil, &evc, cols, "", nil); err == nil {
				insertIG = &ig
			}
			// the same declaration with a FILTER on every selected input (short arguments: the decoded value, of
			// whatever length the data claims, is compared with them)
			evf := ev
			if ig, _, err := buildIG("ig1f", "t1", nil, &evf, cols, core.Pick(r, []string{"and", "or"}), func(ci *config.Integration) {
				var walk func(ins []dig.Input) []dig.Input
				walk = func(ins []dig.Input) []dig.Input {
					out := append([]dig.Input{}, ins...)
					for i := range out {
						out[i].Components = walk(out[i].Components)
						if out[i].Column == "" {
							continue
						}
						base := out[i].Type
						if k := strings.Index(base, "["); k >= 0 {
							base = base[:k]
						}
						switch {
						case strings.HasPrefix(base, "uint"):
							out[i].Filter = dig.Filter{Op: core.Pick(r, []string{"gt", "lt", "eq", "ne"}), Arg: []string{"7"}}
						case strings.HasPrefix(base, "int"), base == "bool":
						case base == "string":
							out[i].Filter = dig.Filter{Op: core.Pick(r, []string{"eq", "ne", "contains"}), Arg: []string{"abc"}}
						default:
							out[i].Filter = dig.Filter{Op: core.Pick(r, []string{"eq", "ne", "contains", "!contains"}), Arg: []string{"0xdeadbeef"}}
						}
					}
					return out
				}
				ci.Event.Inputs = walk(ci.Event.Inputs)
			}); err == nil {
				insertIGF = &ig
			}
		}
		res := dig.VerifResult(ev)
		depth := 0
		for _, in := range ec.inputs {
			depth = max(depth, arrDepth(in))
		}
		var seqOp []string
		var seqImpl []string
		capx := 0
		if r.Bool() {
			capx = 64
		}
		addSeq := func(data []byte, tag string, hostile bool) string {
			out, rows := scanReal(res, data, capx)
			seqOp = append(seqOp, core.Hex(data))
			seqImpl = append(seqImpl, out)
			if insertIG != nil && len(data) > 0 && out != "timeout" {
				topics := []eth.Bytes{append(eth.Bytes(nil), ev.SignatureHash()...)}
				for i := 0; i < nIndexed; i++ {
					topics = append(topics, bytes32(byte(0x11+i)))
				}
				var b eth.Block
				b.Header.Number = 5
				tx := eth.Tx{}
				tx.PrecompHash = bytes32(0x77)
				tx.Logs = eth.Logs{eth.Log{Idx: 1, Address: bytes32(0x22)[:20], Topics: topics, Data: append(eth.Bytes(nil), data...)}}
				b.Txs = eth.Txs{tx}
				var mu sync.Mutex
				iv := core.Protect(func() string {
					if _, err := insertIG.Insert(e2eCtx("src1", 7), &mu, &fakeConn{}, []eth.Block{b}); err != nil {
						return "no-crash" // an error is fine
					}
					return "no-crash"
				})
				if insertIGF != nil && iv == "no-crash" {
					iv = core.Protect(func() string {
						insertIGF.Insert(e2eCtx("src1", 7), &mu, &fakeConn{}, []eth.Block{b})
						return "no-crash"
					})
				}
				e.Add(core.Case{Impl: iv, Spec: "no-crash", Key: fmt.Sprintf("c10-insert %s %s", ec.desc, core.Hex(data)), Nontrivial: hostile,
					Tags: []string{"c10-insert-level", tag}, Detail: map[string]any{"event": ev, "data": core.Hex(data)}})
			}
			if prop == "C10" {
				// crash / over-read / unbounded-rows oracle on the implementation
				verdict := "bounded"
				if out == "panic" || out == "overread" || out == "timeout" {
					verdict = out
				}
				e.Add(core.Case{Impl: verdict, Spec: "bounded", Oracle: fmt.Sprintf("c10rows %s %d %d", ec.desc, len(data), rows),
					Key: fmt.Sprintf("c10 %s %s %d", ec.desc, core.Hex(data), capx), Nontrivial: hostile && nsel > 0,
					Tags: []string{"c10-oracle", tag, "impl:" + strings.SplitN(out, " ", 2)[0]}, Detail: map[string]any{"desc": ec.desc, "event": ev, "data": core.Hex(data), "capx": capx}})
			}
			return out
		}
		for vi, v := range ec.vals {
			eo := encOut[k]
			k++
			parts := strings.SplitN(eo, " ", 4)
			if parts[0] != "ok" || len(parts) < 4 {
				if eo != "ill-typed" {
					return fmt.Errorf("driver enc failed on %q: %s", encOps[k-1], eo)
				}
				continue
			}
			var data []byte
			if parts[1] != "-" {
				data, _ = hex.DecodeString(parts[1])
			}
			inDom := parts[2] == "dom"
			want := "ok " + parts[3]
			trail := []byte(nil)
			if r.Chance(1, 3) {
				trail = r.Bytes(1 + r.Intn(70))
			}
			full := append(append([]byte(nil), data...), trail...)
			if len(full) == 0 {
				continue // processLog never scans empty data
			}
			got := addSeq(full, "valid", false)
			if prop == "C09" && inDom {
				e.Add(core.Case{Impl: got, Spec: want, Key: "c09 " + ec.desc + " " + parts[1], Nontrivial: nsel > 0,
					Tags:   []string{"c09-oracle", fmt.Sprintf("nsel=%d", min(nsel, 4)), fmt.Sprintf("arrdepth=%d", depth), fmt.Sprintf("trail=%v", trail != nil)},
					Detail: map[string]any{"desc": ec.desc, "event": ev, "value": v, "data": core.Hex(full)}})
			}
			if prop == "C10" || vi == 0 {
				// hostile variants of this encoding
				nw := len(data) / 32
				nm := e.N(6, 40)
				for m := 0; m < nm && nw > 0; m++ {
					mut := append([]byte(nil), data...)
					wi := r.Intn(nw)
					if nw <= nm {
						wi = m % nw
					}
					copy(mut[wi*32:], word(core.Pick(r, bigs(len(data)))))
					addSeq(mut, "word-replaced", true)
				}
				if len(data) > 0 {
					addSeq(data[:r.Intn(len(data))], "truncated", true)
					if len(data) >= 32 {
						addSeq(data[:len(data)-1-r.Intn(31)], "truncated", true)
					}
				}
				addSeq(r.Bytes(1+r.Intn(200)), "random", true)
				addSeq(word(big.NewInt(32)), "word32", true)
				addSeq(r.Bytes(32), "random32", true)
			}
		}
		if len(seqOp) > 0 {
			e.Add(core.Case{Op: fmt.Sprintf("scanseq %s %d %s", ec.desc, capx, strings.Join(seqOp, " ")), Impl: strings.Join(seqImpl, " | "),
				Nontrivial: nsel > 0, Tags: []string{"scanseq", fmt.Sprintf("capx=%d", capx)}, Detail: map[string]any{"event": ev}})
		}
	}
	return nil
}

func countSel(t *aty) int {
	switch t.kind {
	case 'e':
		if t.sel {
			return 1
		}
		return 0
	case 'a':
		return countSel(t.elem)
	default:
		n := 0
		for _, f := range t.fields {
			n += countSel(f)
		}
		return n
	}
}

func bytes32(b byte) eth.Bytes {
	out := make(eth.Bytes, 32)
	for i := range out {
		out[i] = b
	}
	return out
}

// bigArrays: one log whose array input has MANY elements (around and beyond a thousand), and several logs that
// add up to such counts, through the real Integration.Insert: one row per element, in the array's order, the
// scalar input repeated on each — whatever the number of rows and however the COPY is issued.
func bigArrays(e *core.Env) {
	op := &aty{kind: 'e', name: "address", sel: true}
	ids := &aty{kind: 'a', k: 0, elem: &aty{kind: 'e', name: "uint256", sel: true}}
	ins := []*aty{op, ids}
	var nc, nn int
	assignCols(ins, &nc, &nn)
	ev := eventOf("Batch", ins)
	cols := []wpg.Column{{Name: op.col, Type: "bytea"}, {Name: ids.elem.col, Type: "numeric"}}
	for _, counts := range [][]int{{1}, {3, 2}, {999}, {1000}, {1001}, {1500}, {2500}, {700, 301}, {4099}, {1024, 1, 1023}} {
		evc := ev
		ig, _, err := buildIG("big", "t_big", nil, &evc, cols, "", nil)
		if err != nil {
			e.Add(core.Case{Impl: "declaration refused: " + err.Error(), Spec: "ok", Key: fmt.Sprintf("c09-big %v", counts), Nontrivial: true, Tags: []string{"big-array"}})
			continue
		}
		var b eth.Block
		b.Header.Number = 9
		tx := eth.Tx{}
		tx.PrecompHash = bytes32(0x55)
		var want []string
		next := int64(1)
		for li, n := range counts {
			data := append(append(append([]byte{}, bytes32(byte(0xA0 + li))[12:]...), make([]byte, 0)...))
			data = append(make([]byte, 12), data...) // the address word
			data = append(data, word(big.NewInt(64))...)
			data = append(data, word(big.NewInt(int64(n)))...)
			for k := 0; k < n; k++ {
				data = append(data, word(big.NewInt(next))...)
				want = append(want, fmt.Sprintf("%x/%d", bytes32(byte(0xA0 + li))[12:], next))
				next++
			}
			tx.Logs = append(tx.Logs, eth.Log{Idx: eth.Uint64(li), Address: bytes32(0x22)[:20], Topics: []eth.Bytes{append(eth.Bytes(nil), ev.SignatureHash()...)}, Data: data})
		}
		b.Txs = eth.Txs{tx}
		var mu sync.Mutex
		conn := &fakeConn{}
		verdict := core.Protect(func() string {
			if _, err := ig.Insert(e2eCtx("src1", 7), &mu, conn, []eth.Block{b}); err != nil {
				return "insert failed: " + err.Error()
			}
			return "ok"
		})
		if verdict == "ok" {
			var got []string
			for _, cc := range conn.copies {
				oi, ii := -1, -1
				for k, c := range cc.Cols {
					switch c {
					case op.col:
						oi = k
					case ids.elem.col:
						ii = k
					}
				}
				for _, rw := range cc.Rows {
					if oi < 0 || ii < 0 {
						got = append(got, "row without the declared columns")
						continue
					}
					got = append(got, fmt.Sprintf("%x/%v", rw[oi], renderNum(rw[ii])))
				}
			}
			switch {
			case len(got) != len(want):
				verdict = fmt.Sprintf("%d array elements in all, %d rows written (in %d COPY calls)", len(want), len(got), len(conn.copies))
			default:
				for k := range want {
					if got[k] != want[k] {
						verdict = fmt.Sprintf("row %d is %s, element %d of the data is %s", k, got[k], k, want[k])
						break
					}
				}
			}
		}
		e.Add(core.Case{Impl: verdict, Spec: "ok", Key: fmt.Sprintf("c09-big %v", counts), Nontrivial: true, Tags: []string{"big-array", fmt.Sprintf("rows=%d", len(want))},
			Detail: map[string]any{"event": "Batch(address operator, uint256[] ids)", "elements_per_log": counts}})
	}
}

// renderNum: a COPY value holding an unsigned integer, as decimal text
func renderNum(v any) string {
	switch x := v.(type) {
	case fmt.Stringer:
		return x.String()
	case []byte:
		return new(big.Int).SetBytes(x).String()
	}
	return fmt.Sprint(v)
}
