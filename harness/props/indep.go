package props

import (
	"bytes"
	"fmt"
	"math/big"

	"github.com/indexsupply/shovel/dig"

	"verifharness/simnode"
)

// indepRows computes, WITHOUT any shovel code, the rows a Transfer / Approval declaration without
// filters derives from the node's own chain data: one row per log whose first topic is the event's
// signature hash and which has exactly three topics; each column holds the value the
// declaration names (indexed address = last 20 bytes of its own topic, value = the data word as a
// decimal number, block/transaction/log fields from the item, abi_idx 0, source and integration
// names of the task). Returned in the same "block:digest" form as truthRows / taskRows.
// ok=false when the declaration is outside this simple family (filters, references, other events):
// the caller then falls back to the dig-based projection.
func (w *world) indepRows(t *wTask) (rows []string, ok bool) {
	ev := t.cig.Event
	var sig []byte
	switch ev.Name {
	case "Transfer":
		sig = transferEvent.SignatureHash()
	case "Approval":
		sig = approvalEvent.SignatureHash()
	case "":
		return w.indepItemRows(t)
	default:
		return nil, false
	}
	if len(ev.Inputs) != 3 || !ev.Inputs[0].Indexed || !ev.Inputs[1].Indexed || ev.Inputs[2].Indexed ||
		ev.Inputs[0].Type != "address" || ev.Inputs[1].Type != "address" || ev.Inputs[2].Type != "uint256" {
		return nil, false
	}
	noFilter := func(f dig.Filter) bool {
		return f.Op == "" && len(f.Arg) == 0 && f.Ref.Integration == "" && f.Ref.Table == "" && f.Ref.Column == ""
	}
	for _, in := range ev.Inputs {
		if !noFilter(in.Filter) || len(in.Components) > 0 {
			return nil, false
		}
	}
	for _, b := range t.cig.Block {
		if !noFilter(b.Filter) {
			return nil, false
		}
		if b.Name != "abi_idx" && expectField(b.Name, item{b: &simnode.Block{}, t: &simnode.Tx{}, l: &simnode.Log{}, ta: &simnode.Trace{}}, "", "", 0) == "?unknown-field" {
			return nil, false
		}
	}
	var chain *simnode.Chain
	w.node.With(func(c *simnode.Chain) { chain = c.Clone() })
	for n := 1; n < len(chain.Blocks); n++ {
		b := &chain.Blocks[n]
		for ti := range b.Txs {
			tx := &b.Txs[ti]
			for li := range tx.Logs {
				l := &tx.Logs[li]
				if len(l.Topics) != 3 || !bytes.Equal(l.Topics[0], sig) {
					continue
				}
				vals := map[string]string{}
				for k, in := range ev.Inputs {
					if in.Column == "" {
						continue
					}
					switch k {
					case 0, 1:
						vals[in.Column] = fmt.Sprintf("x:%x", l.Topics[k+1][12:])
					case 2:
						if len(l.Data) < 32 {
							return nil, false
						}
						vals[in.Column] = "n:" + new(big.Int).SetBytes(l.Data[:32]).String()
					}
				}
				for _, bd := range t.cig.Block {
					if bd.Column == "" {
						continue
					}
					if bd.Name == "abi_idx" {
						vals[bd.Column] = "n:0"
						continue
					}
					vals[bd.Column] = expectField(bd.Name, item{b: b, t: tx, l: l}, t.src, t.ig, 7)
				}
				_, p := t.rowDigest(vals)
				rows = append(rows, fmt.Sprintf("%d:%s", n, p))
			}
		}
	}
	return rows, true
}

// indepItemRows: the same for a declaration WITHOUT an event and without filters: one row per
// transaction, or one row per trace action when a trace field is selected; every column is a block /
// transaction / trace field read from the node's own data.
func (w *world) indepItemRows(t *wTask) (rows []string, ok bool) {
	trace := false
	for _, b := range t.cig.Block {
		if b.Filter.Op != "" || len(b.Filter.Arg) != 0 || b.Filter.Ref.Integration != "" || b.Filter.Ref.Table != "" {
			return nil, false
		}
		if isLogField(b.Name) || b.Name == "abi_idx" {
			return nil, false
		}
		if isTraceField(b.Name) {
			trace = true
		}
		if expectField(b.Name, item{b: &simnode.Block{}, t: &simnode.Tx{}, l: &simnode.Log{}, ta: &simnode.Trace{}}, "", "", 0) == "?unknown-field" {
			return nil, false
		}
	}
	var chain *simnode.Chain
	w.node.With(func(c *simnode.Chain) { chain = c.Clone() })
	for n := 1; n < len(chain.Blocks); n++ {
		b := &chain.Blocks[n]
		for ti := range b.Txs {
			tx := &b.Txs[ti]
			emit := func(it item) {
				vals := map[string]string{}
				for _, bd := range t.cig.Block {
					if bd.Column != "" {
						vals[bd.Column] = expectField(bd.Name, it, t.src, t.ig, 7)
					}
				}
				_, p := t.rowDigest(vals)
				rows = append(rows, fmt.Sprintf("%d:%s", n, p))
			}
			if !trace {
				emit(item{b: b, t: tx})
				continue
			}
			for xi := range tx.Traces {
				emit(item{b: b, t: tx, ta: &tx.Traces[xi], ti: xi})
			}
		}
	}
	return rows, true
}
