package props

import (
	"context"
	"database/sql/driver"
	"errors"
	"fmt"
	"sort"
	"strings"
	"sync"

	"github.com/holiman/uint256"
	"github.com/indexsupply/shovel/dig"
	"github.com/indexsupply/shovel/eth"
	"github.com/indexsupply/shovel/shovel/config"
	"github.com/indexsupply/shovel/wctx"
	"github.com/indexsupply/shovel/wpg"
	"github.com/jackc/pgx/v5"
	"github.com/jackc/pgx/v5/pgconn"

	"verifharness/simnode"
)

// ---- fakeConn: a wpg.Conn that records what the row builder sends (no Postgres involved) ----

type copyCall struct {
	Table string
	Cols  []string
	Rows  [][]any
}

type execCall struct {
	SQL  string
	Args []any
}

type fakeConn struct {
	mu     sync.Mutex
	copies []copyCall
	execs  []execCall
	// reference tables for filter_ref lookups: "table.column" -> set of hex values
	refs    map[string]map[string]bool
	queries []execCall
	failRef bool
}

func (f *fakeConn) CopyFrom(ctx context.Context, table pgx.Identifier, cols []string, src pgx.CopyFromSource) (int64, error) {
	f.mu.Lock()
	defer f.mu.Unlock()
	cc := copyCall{Table: strings.Join(table, "."), Cols: append([]string(nil), cols...)}
	for src.Next() {
		vals, err := src.Values()
		if err != nil {
			return 0, err
		}
		cc.Rows = append(cc.Rows, append([]any(nil), vals...))
	}
	f.copies = append(f.copies, cc)
	return int64(len(cc.Rows)), nil
}

func (f *fakeConn) Exec(ctx context.Context, sql string, args ...any) (pgconn.CommandTag, error) {
	f.mu.Lock()
	defer f.mu.Unlock()
	f.execs = append(f.execs, execCall{sql, args})
	return pgconn.NewCommandTag("OK"), nil
}

type fakeRow struct {
	ok  bool
	err error
}

func (r fakeRow) Scan(dest ...any) error {
	if r.err != nil {
		return r.err
	}
	if !r.ok {
		return pgx.ErrNoRows
	}
	if len(dest) == 1 {
		if b, ok := dest[0].(*bool); ok {
			*b = true
		}
	}
	return nil
}

// QueryRow answers the reference-filter lookup `select true from T where C = $1`.
func (f *fakeConn) QueryRow(ctx context.Context, sql string, args ...any) pgx.Row {
	f.mu.Lock()
	defer f.mu.Unlock()
	f.queries = append(f.queries, execCall{sql, args})
	if f.failRef {
		return fakeRow{err: errors.New("fake: query failed")}
	}
	fs := strings.Fields(sql)
	// select true from T where C = $1
	if len(fs) >= 8 && strings.EqualFold(fs[0], "select") && strings.EqualFold(fs[2], "from") && len(args) == 1 {
		key := fs[3] + "." + fs[5]
		if b, ok := args[0].([]byte); ok {
			return fakeRow{ok: f.refs[key][fmt.Sprintf("%x", b)]}
		}
	}
	return fakeRow{err: fmt.Errorf("fake: unsupported query %q", sql)}
}

func (f *fakeConn) Query(ctx context.Context, sql string, args ...any) (pgx.Rows, error) {
	return nil, errors.New("fake: Query unsupported")
}

var _ wpg.Conn = (*fakeConn)(nil)

// ---- canonical rendering of the values the row builder hands to COPY ----

func renderVal(v any) string {
	switch x := v.(type) {
	case nil:
		return "nil"
	case string:
		return "s:" + fmt.Sprintf("%x", x)
	case bool:
		return fmt.Sprintf("b:%v", x)
	case int:
		return fmt.Sprintf("n:%d", x)
	case uint64:
		return fmt.Sprintf("n:%d", x)
	case eth.Uint64:
		return fmt.Sprintf("n:%d", uint64(x))
	case eth.Byte:
		return fmt.Sprintf("n:%d", byte(x))
	case []byte:
		return "x:" + fmt.Sprintf("%x", x)
	case eth.Bytes:
		return "x:" + fmt.Sprintf("%x", []byte(x))
	case *uint256.Int:
		return "n:" + x.Dec()
	case driver.Valuer:
		d, err := x.Value()
		if err != nil {
			return "valuer-err"
		}
		return fmt.Sprintf("n:%v", d)
	default:
		return fmt.Sprintf("?%T", v)
	}
}

// ---- what the source (simnode chain) reports for a field of an item ----

type item struct {
	b  *simnode.Block
	t  *simnode.Tx
	l  *simnode.Log
	ta *simnode.Trace
	ti int // trace position within the tx
}

func u256s(x uint256.Int) string { return "n:" + x.Dec() }

func expectField(f string, it item, src, ig string, chainID uint64) string {
	switch f {
	case "src_name":
		return "s:" + fmt.Sprintf("%x", src)
	case "ig_name":
		return "s:" + fmt.Sprintf("%x", ig)
	case "chain_id":
		return fmt.Sprintf("n:%d", chainID)
	case "block_hash":
		return fmt.Sprintf("x:%x", it.b.Hash)
	case "block_num":
		return fmt.Sprintf("n:%d", it.b.Num)
	case "block_time":
		return fmt.Sprintf("n:%d", it.b.Time)
	case "tx_hash":
		return fmt.Sprintf("x:%x", it.t.Hash)
	case "tx_idx":
		return fmt.Sprintf("n:%d", it.t.Idx)
	case "tx_signer":
		return fmt.Sprintf("x:%x", it.t.From)
	case "tx_to":
		return fmt.Sprintf("x:%x", it.t.To)
	case "tx_value":
		return u256s(it.t.Value)
	case "tx_input":
		return fmt.Sprintf("x:%x", it.t.Input)
	case "tx_type":
		return fmt.Sprintf("n:%d", it.t.Type)
	case "tx_status":
		return fmt.Sprintf("n:%d", it.t.Status)
	case "tx_gas_used":
		return fmt.Sprintf("n:%d", it.t.GasUsed)
	case "tx_gas_price":
		return u256s(it.t.GasPrice)
	case "tx_effective_gas_price":
		return u256s(it.t.EffectiveGasPrice)
	case "tx_contract_address":
		return fmt.Sprintf("x:%x", it.t.ContractAddress)
	case "tx_max_priority_fee_per_gas":
		return u256s(it.t.MaxPriorityFeePerGas)
	case "tx_max_fee_per_gas":
		return u256s(it.t.MaxFeePerGas)
	case "tx_nonce":
		return fmt.Sprintf("n:%d", it.t.Nonce)
	case "log_idx":
		return fmt.Sprintf("n:%d", it.l.Idx)
	case "log_addr":
		return fmt.Sprintf("x:%x", it.l.Addr)
	case "trace_action_call_type":
		return "s:" + fmt.Sprintf("%x", it.ta.CallType)
	case "trace_action_idx":
		return fmt.Sprintf("n:%d", it.ti)
	case "trace_action_from":
		return fmt.Sprintf("x:%x", it.ta.From)
	case "trace_action_to":
		return fmt.Sprintf("x:%x", it.ta.To)
	case "trace_action_value":
		return u256s(it.ta.Value)
	}
	return "?unknown-field"
}

var allFields = []string{"src_name", "ig_name", "chain_id", "block_hash", "block_num", "block_time", "tx_hash", "tx_idx", "tx_signer", "tx_to", "tx_value",
	"tx_input", "tx_type", "tx_status", "log_idx", "tx_gas_used", "tx_gas_price", "tx_effective_gas_price", "tx_contract_address",
	"tx_max_priority_fee_per_gas", "tx_max_fee_per_gas", "tx_nonce", "log_addr", "trace_action_call_type", "trace_action_idx",
	"trace_action_from", "trace_action_to", "trace_action_value"}

func fieldType(f string) string {
	switch f {
	case "src_name", "ig_name", "trace_action_call_type":
		return "text"
	case "block_hash", "tx_hash", "tx_signer", "tx_to", "tx_input", "tx_contract_address", "log_addr", "trace_action_from", "trace_action_to":
		return "bytea"
	case "tx_idx", "log_idx", "tx_type", "tx_status", "trace_action_idx":
		return "int"
	}
	return "numeric"
}

func isLogField(f string) bool   { return strings.HasPrefix(f, "log_") }
func isTraceField(f string) bool { return strings.HasPrefix(f, "trace_") }

// buildIG makes a config.Integration selecting block fields `fields` (column = field name) and
// an optional event, runs the real ValidateFix and dig.New on it.
func buildIG(name, table string, fields []string, ev *dig.Event, cols []wpg.Column, agg string, mod func(*config.Integration), extra ...config.Integration) (dig.Integration, config.Integration, error) {
	ig := config.Integration{Name: name, Enabled: true, FilterAGG: agg}
	ig.Table.Name = table
	ig.Table.Columns = append(ig.Table.Columns, cols...)
	for _, f := range fields {
		ig.Block = append(ig.Block, dig.BlockData{Name: f, Column: f})
		ig.Table.Columns = append(ig.Table.Columns, wpg.Column{Name: f, Type: fieldType(f)})
	}
	if ev != nil {
		ig.Event = *ev
	}
	if mod != nil {
		mod(&ig)
	}
	root := config.Root{Integrations: append([]config.Integration{ig}, extra...)}
	if err := config.ValidateFix(&root); err != nil {
		return dig.Integration{}, ig, err
	}
	ig = root.Integrations[0]
	d, err := dig.New(ig.Name, ig.Event, ig.Block, ig.Table, ig.Notification, ig.FilterAGG)
	return d, ig, err
}

func e2eCtx(src string, chainID uint64) context.Context {
	ctx := context.Background()
	ctx = wctx.WithChainID(ctx, chainID)
	ctx = wctx.WithSrcName(ctx, src)
	return ctx
}

// rowsByKey renders COPY rows as maps column->rendered value
func copyRowMaps(cc copyCall) []map[string]string {
	var out []map[string]string
	for _, r := range cc.Rows {
		m := map[string]string{}
		for i, c := range cc.Cols {
			if i < len(r) {
				m[c] = renderVal(r[i])
			}
		}
		out = append(out, m)
	}
	return out
}

func sortedCopy(xs []string) []string {
	ys := append([]string(nil), xs...)
	sort.Strings(ys)
	return ys
}

func new256(b []byte) *uint256.Int { return new(uint256.Int).SetBytes(b) }
