package props

import (
	"fmt"
	"strings"
	"time"

	"github.com/indexsupply/shovel/jrpc2"
	"github.com/indexsupply/shovel/shovel/config"

	"verifharness/core"
	"verifharness/simnode"
)

func init() {
	Registry["C03"] = runC03
	Rules["C03"] = "reorg histories on the REAL Task + client: fork depth 1..8 (within the recorded positions; deeper than all positions when a start block is configured), replacement shorter / equal / longer, repeated and nested reorgs incl. A->B->A style flip-flops, reorgs applied BETWEEN steps and INSIDE a step just before its k-th JSON-RPC exchange (head query, header fetch, log fetch, between partitions), batch_size 1..9 x concurrency 1..4 with the batch size changed between steps, one task on an uncached client and 2-3 integrations sharing one caching client; every step is compared with the Lean World model (K); once the source settles and grows past the recorded position the steps must reach a table that is exactly the projection of the canonical chain (Lean Spec, O). non-trivial = history in which an unwind happened; distinct by history"
}

func runC03(e *core.Env) error {
	rollbackRemovesAll(e, "c03")
	r := e.Rand
	nHist := e.N(40, 600)
	plans := [][]string{{"block_time"}, {"block_time", "tx_input"}, {"block_time", "tx_status"}}
	for h := 0; h < nHist && !e.OverBudget(); h++ {
		rr := r.Fork()
		shared := h%4 == 3 // several integrations on one CACHING client
		chain := transferChain(4+rr.Intn(5), uint64(1+rr.Intn(1000)))
		w, err := newWorld(e, chain)
		if err != nil {
			return err
		}
		nIG := 1
		if shared {
			nIG = 2 + rr.Intn(2)
			w.client = jrpc2.New(w.node.URL()).WithMaxReads(1 + rr.Intn(3)).WithPollDuration(time.Hour)
		}
		var igs []config.Integration
		sharedTable := nIG > 1 && rr.Chance(1, 3) // several integrations (same shape) writing to ONE table
		for i := 0; i < nIG; i++ {
			if sharedTable {
				igs = append(igs, transferIG(fmt.Sprintf("ig%d", i+1), "tshared", core.Pick(rr, plans), nil))
				continue
			}
			if rr.Chance(1, 3) {
				// transaction-indexing: blocks only, nothing cross-checks the block hash afterwards
				igs = append(igs, txIG(fmt.Sprintf("ig%d", i+1), fmt.Sprintf("t%d", i+1), core.Pick(rr, [][]string{{"tx_hash", "block_time"}, {"tx_hash", "tx_input", "block_hash"}})))
				continue
			}
			igs = append(igs, transferIG(fmt.Sprintf("ig%d", i+1), fmt.Sprintf("t%d", i+1), core.Pick(rr, plans), nil))
		}
		root := config.Root{Integrations: igs}
		if err := w.setupRoot(&root); err != nil {
			w.close()
			return err
		}
		start := uint64(1 + rr.Intn(2))
		var tasks []*wTask
		for i := range root.Integrations {
			t, err := w.addTask(fmt.Sprintf("t%d", i+1), root.Integrations[i], "src1", start, 0, 1+rr.Intn(9), 1+rr.Intn(4))
			if err != nil {
				w.close()
				return err
			}
			tasks = append(tasks, t)
		}
		s := start - 1
		nOps := 8 + rr.Intn(10)
		var saved *simnode.Chain
		for i := 0; i < nOps && !w.dead; i++ {
			t := core.Pick(rr, tasks)
			switch op := rr.Intn(12); {
			case op < 2:
				w.grow(1 + rr.Intn(3))
			case op < 5:
				depth := 1 + rr.Intn(4)
				if rr.Chance(1, 5) {
					depth = 5 + rr.Intn(4)
				}
				if int(w.head())-depth < int(start)-1 {
					depth = int(w.head()) - int(start) + 1
				}
				if depth < 1 {
					continue
				}
				if rr.Chance(1, 4) && saved == nil {
					w.node.With(func(c *simnode.Chain) { saved = c.Clone() }) // remember fork A
				}
				w.reorg(depth, core.Pick(rr, []int{depth - 1, depth, depth + 1, depth + 2}))
			case op < 6 && saved != nil:
				w.node.SetChain(saved.Clone()) // flip back to the remembered fork (A -> B -> A)
				saved = nil
				w.tags["flip-back"]++
			case op < 8:
				// a reorg lands inside the step, just before its k-th exchange
				k := rr.Intn(5)
				n := 0
				depth := 1 + rr.Intn(3)
				w.salt++
				salt := w.salt
				w.node.SetBefore(func(ex *simnode.Exchange) {
					if n == k {
						c := w.node.Chain()
						d := depth
						if len(c.Blocks)-d < int(start) {
							d = len(c.Blocks) - int(start)
						}
						if d >= 1 {
							c.Reorg(d, d+1, simnode.GenOpts{Salt: salt, MakeTx: transferMakeTx})
						}
					}
					n++
				})
				w.step(t, noFault)
				w.node.SetBefore(nil)
				w.tags["reorg-in-step"]++
			case op == 11 && w.head() >= start+3:
				// a reorg lands in the MIDDLE of one batch reply: the first elements of the
				// eth_getBlockByNumber batch come from the old fork, the last one from the new fork
				// (whose parent is the NEW version of the block before it): the reply is inconsistent,
				// the client must reject it, and the retry must not be served from it either
				fired := false
				w.salt++
				salt := w.salt
				w.node.SetAfter(func(ex *simnode.Exchange) {
					if fired || !ex.Batch || len(ex.Requests) < 2 || len(ex.Responses) != len(ex.Requests) {
						return
					}
					for _, rq := range ex.Requests {
						if rq.Method != "eth_getBlockByNumber" {
							return
						}
					}
					last, ok := ex.Responses[len(ex.Responses)-1]["result"].(map[string]any)
					if !ok {
						return
					}
					e1 := hexn(last["number"]) // number of the last block of the batch
					c := w.node.Chain()
					if int(e1) >= len(c.Blocks) || e1 < 2 || e1-1 < start {
						return
					}
					fired = true
					depth := len(c.Blocks) - int(e1-1) // fork point = e1-1: that block and everything above is replaced
					c.Reorg(depth, depth+1, simnode.GenOpts{Salt: salt, MakeTx: transferMakeTx})
					w.node.Redispatch(ex, len(ex.Responses)-1)
				})
				// one partition holding a FULL batch (so that the retry asks for the same range again)
				t.batch, t.conc = 2+rr.Intn(3), 1
				if err := w.buildTask(t); err != nil {
					return err
				}
				w.ops = append(w.ops, fmt.Sprintf("w-task %s %s %s %s %d %d %d %d _", t.id, t.src, t.ig, t.table, t.start, t.stop, t.batch, t.conc))
				w.outs = append(w.outs, "ok")
				for guard := 0; guard < 20 && w.head() < max(w.taskTop(t), start-1)+uint64(t.batch)+1; guard++ {
					w.grow(1)
				}
				w.step(t, noFault)
				w.node.SetAfter(nil)
				if fired {
					w.tags["reorg-mid-batch"]++
					w.step(t, noFault) // the retry
					if shared {
						w.step(core.Pick(rr, tasks), noFault) // another integration on the same client reads the range
					}
				}
			case op < 9 && !shared:
				// the batch size in effect changes
				t.batch, t.conc = 1+rr.Intn(9), 1+rr.Intn(4)
				if err := w.buildTask(t); err != nil {
					return err
				}
				w.ops = append(w.ops, fmt.Sprintf("w-task %s %s %s %s %d %d %d %d _", t.id, t.src, t.ig, t.table, t.start, t.stop, t.batch, t.conc))
				w.outs = append(w.outs, "ok")
			default:
				w.step(t, noFault)
			}
		}
		// the source settles and grows past every recorded position (a replacement chain may be shorter
		// than what was indexed: until the head passes the recorded position the task cannot see the fork)
		for guard := 0; guard < 40; guard++ {
			maxTop := uint64(0)
			for _, t := range tasks {
				maxTop = max(maxTop, w.taskTop(t))
			}
			if w.head() > maxTop {
				break
			}
			w.grow(1)
		}
		w.grow(1 + rr.Intn(3))
		var oracles []string
		unwound := strings.Contains(strings.Join(w.ops, "\n"), "|") // cheap proxy; refined below
		_ = unwound
		nUnwind := 0
		for _, t := range tasks {
			for k := 0; k < 80 && !w.dead; k++ {
				out := w.step(t, noFault)
				if out == "nothing-new" && w.taskTop(t) == w.head() {
					break
				}
			}
			oracles = append(oracles, w.projOracle(t, s))
			if w.taskTop(t) != w.head() {
				e.Add(core.Case{Impl: fmt.Sprintf("task %s stuck at %d of %d", t.id, w.taskTop(t), w.head()), Spec: "converged", Key: fmt.Sprintf("c03-stuck %d %s", h, t.id),
					Detail: map[string]any{"history": strings.Split(strings.Join(w.ops, "\n"), "\n"), "shared_cached_client": shared}})
			}
		}
		nUnwind = w.tags["unwind"]
		op, impl := w.caseOp()
		tags := []string{fmt.Sprintf("shared-cached-client=%v", shared), fmt.Sprintf("shared-table=%v", sharedTable)}
		for k, v := range w.tags {
			for j := 0; j < v; j++ {
				tags = append(tags, k)
			}
		}
		e.Add(core.Case{Op: op, Impl: impl, Oracles: oracles, Nontrivial: nUnwind > 0 || w.tags["reorg"] > 0, Tags: tags, Key: fmt.Sprintf("c03 %d %d", h, e.Seed),
			Detail: map[string]any{"shared_cached_client": shared, "start": start}})
		if w.dead || w.tags["outcome:panic"] > 0 {
			e.Add(core.Case{Impl: "a step panicked or did not terminate", Spec: "every step returns", Key: fmt.Sprintf("c03-crash %d", h), Detail: map[string]any{"history": strings.Split(strings.Join(w.ops, "\n"), "\n")}})
		}
		w.close()
	}
	// ---- EVERY data plan that includes block hashes notices a reorg (a logs-only or receipts-only plan carries no parent
	// hash and is outside the property's quantifier): one integration of each kind (its plan decides which
	// requests are made and therefore where a parent hash can come from), indexed to the head, then the last blocks
	// are replaced and the chain grows
	kinds := []struct {
		name string
		mk   func() config.Integration
	}{
		{"trace", func() config.Integration { return traceIG("ig1", "t1") }},
		{"trace+block_hash", func() config.Integration {
			return txIG("ig1", "t1", []string{"trace_action_from", "trace_action_to", "trace_action_value", "block_hash", "tx_hash"})
		}},
		{"tx", func() config.Integration { return txIG("ig1", "t1", []string{"tx_hash", "block_hash"}) }},
		{"tx+receipt", func() config.Integration { return txIG("ig1", "t1", []string{"tx_hash", "tx_status", "block_time"}) }},
		{"logs+header", func() config.Integration { return transferIG("ig1", "t1", []string{"block_time"}, nil) }},
		{"logs+block", func() config.Integration { return transferIG("ig1", "t1", []string{"tx_input"}, nil) }},
		{"logs+receipt", func() config.Integration { return transferIG("ig1", "t1", []string{"tx_status", "block_time"}, nil) }},
	}
	for ki, kind := range kinds {
		for rep := 0; rep < e.N(1, 3) && !e.OverBudget(); rep++ {
			rr := r.Fork()
			chain := transferChain(6+rr.Intn(3), uint64(1+rr.Intn(1000)))
			w, err := newWorld(e, chain)
			if err != nil {
				return err
			}
			if rep%2 == 1 {
				w.client = jrpc2.New(w.node.URL()).WithMaxReads(2).WithPollDuration(time.Hour)
			}
			root := config.Root{Integrations: []config.Integration{kind.mk()}}
			if err := w.setupRoot(&root); err != nil {
				w.close()
				return err
			}
			t, err := w.addTask("t1", root.Integrations[0], "src1", 2, 0, 1+rr.Intn(3), 1)
			if err != nil {
				w.close()
				return err
			}
			for k := 0; k < 30 && !w.dead; k++ {
				if out := w.step(t, noFault); out == "nothing-new" {
					break
				}
			}
			depth := 1 + rr.Intn(3)
			w.reorg(depth, depth)
			w.grow(2)
			for k := 0; k < 60 && !w.dead; k++ {
				if out := w.step(t, noFault); out == "nothing-new" && w.taskTop(t) == w.head() {
					break
				}
			}
			if w.taskTop(t) != w.head() {
				e.Add(core.Case{Impl: fmt.Sprintf("%s integration: stuck at %d of %d after a reorg of depth %d", kind.name, w.taskTop(t), w.head(), depth), Spec: "converged", Key: fmt.Sprintf("c03-plan-stuck %d %d", ki, rep)})
			}
			op, impl := w.caseOp()
			e.Add(core.Case{Op: op, Impl: impl, Oracles: []string{w.projOracle(t, 1)}, Nontrivial: true, Key: fmt.Sprintf("c03-plan %d %d %d", ki, rep, e.Seed), Tags: []string{"every-plan-notices-a-reorg", "kind=" + kind.name}})
			w.close()
		}
	}
	// ---- pruning of old positions (PruneTask keeps the n newest per pair) next to reorgs that stay WITHIN
	// the retained history: the unwind still finds the fork
	for rep := 0; rep < e.N(4, 24) && !e.OverBudget(); rep++ {
		rr := r.Fork()
		chain := transferChain(3, uint64(1+rr.Intn(1000)))
		w, err := newWorld(e, chain)
		if err != nil {
			return err
		}
		root := config.Root{Integrations: []config.Integration{transferIG("ig1", "t1", []string{"block_time"}, nil), txIG("ig2", "t2", []string{"tx_hash", "block_time"})}}
		if err := w.setupRoot(&root); err != nil {
			w.close()
			return err
		}
		t1, err1 := w.addTask("t1", root.Integrations[0], "src1", 1, 0, 1+rr.Intn(2), 1)
		t2, err2 := w.addTask("t2", root.Integrations[1], "src1", 1, 0, 1, 1)
		if err1 != nil || err2 != nil {
			w.close()
			return fmt.Errorf("c03 prune: %v %v", err1, err2)
		}
		ts := []*wTask{t1, t2}
		for i := 0; i < 6+rr.Intn(4) && !w.dead; i++ {
			w.grow(1)
			for _, t := range ts {
				w.step(t, noFault)
			}
		}
		keep := 3 + rr.Intn(4)
		w.prune(keep)
		// t2 has one position per block (batch 1): a reorg of depth <= keep-1 has its fork among the retained ones;
		// t1 may have fewer positions than blocks, its fork is the newest position at or below the fork block
		depth := 1 + rr.Intn(min(keep-1, 3))
		w.reorg(depth, depth+rr.Intn(2))
		w.grow(1)
		if rr.Bool() {
			w.prune(keep)
		}
		for k := 0; k < 60 && !w.dead; k++ {
			quiet := true
			for _, t := range ts {
				if out := w.step(t, noFault); !(out == "nothing-new" && w.taskTop(t) == w.head()) {
					quiet = false
				}
			}
			if quiet {
				break
			}
		}
		var oracles []string
		for _, t := range ts {
			oracles = append(oracles, w.projOracle(t, 0))
			if w.taskTop(t) != w.head() {
				e.Add(core.Case{Impl: fmt.Sprintf("after pruning to %d positions and a reorg of depth %d: %s stuck at %d of %d", keep, depth, t.ig, w.taskTop(t), w.head()), Spec: "converged", Key: fmt.Sprintf("c03-prune-stuck %d %s", rep, t.ig)})
			}
		}
		op, impl := w.caseOp()
		e.Add(core.Case{Op: op, Impl: impl, Oracles: oracles, Nontrivial: true, Key: fmt.Sprintf("c03-prune %d %d", rep, e.Seed), Tags: []string{"prune-then-reorg-within-retained-history", fmt.Sprintf("keep=%d", keep), fmt.Sprintf("depth=%d", depth)}})
		w.close()
	}
	// ---- a reorg whose fork lies BELOW the configured start: block start-1 itself (whose hash is the task's
	// initial position) and everything the task has indexed are replaced. The unwind deletes every recorded
	// position and the task begins again from the configured start on the new chain.
	for rep := 0; rep < e.N(2, 8) && !e.OverBudget(); rep++ {
		rr := r.Fork()
		w, err := newWorld(e, transferChain(7, uint64(1+rr.Intn(1000))))
		if err != nil {
			return err
		}
		cached := rep%2 == 1
		if cached {
			// every other repetition on a CACHING client (whatever it remembers per block number is about the old chain)
			w.client = jrpc2.New(w.node.URL()).WithMaxReads(1 + rr.Intn(2)).WithPollDuration(time.Hour)
		}
		root := config.Root{Integrations: []config.Integration{transferIG("iga", "ta", []string{"block_time"}, nil)}}
		if err := w.setupRoot(&root); err != nil {
			w.close()
			return err
		}
		start := uint64(3 + rr.Intn(2))
		t, err := w.addTask("t1", root.Integrations[0], "src1", start, 0, 1+rr.Intn(3), 1+rr.Intn(2))
		if err != nil {
			w.close()
			return err
		}
		for k := 0; k < 20 && !w.dead && w.taskTop(t) != w.head(); k++ {
			w.step(t, noFault)
		}
		depth := int(w.head()) - int(start) + 2 + rr.Intn(2) // the fork is at start-2 or below
		if depth > int(w.head()) {
			depth = int(w.head())
		}
		w.reorg(depth, depth+1+rr.Intn(2))
		w.grow(1)
		for k := 0; k < 60 && !w.dead; k++ {
			if out := w.step(t, noFault); out == "nothing-new" && w.taskTop(t) == w.head() {
				break
			}
		}
		verdict := "ok"
		if w.taskTop(t) != w.head() {
			verdict = fmt.Sprintf("start %d, reorg of depth %d (fork below start-1): stuck at %d, the head is %d", start, depth, w.taskTop(t), w.head())
		}
		e.Add(core.Case{Impl: verdict, Spec: "ok", Oracles: []string{w.projOracle(t, start-1)}, Nontrivial: true, Key: fmt.Sprintf("c03-fork-below-start %d %d", rep, e.Seed),
			Tags: []string{"fork-below-configured-start", fmt.Sprintf("caching-client=%v", cached)}, Detail: map[string]any{"start": start, "depth": depth, "history": strings.Split(strings.Join(w.ops, "\n"), "\n")}})
		w.close()
	}
	// ---- a LARGE batch size while following the head (one recorded position per block), then a reorg
	// deeper than a few positions: the unwind is bounded by the number of positions (1000), not by blocks
	for rep := 0; rep < e.N(3, 12) && !e.OverBudget(); rep++ {
		rr := r.Fork()
		chain := transferChain(3, uint64(1+rr.Intn(1000)))
		w, err := newWorld(e, chain)
		if err != nil {
			return err
		}
		root := config.Root{Integrations: []config.Integration{transferIG("ig1", "t1", []string{"block_time"}, nil)}}
		if err := w.setupRoot(&root); err != nil {
			w.close()
			return err
		}
		batch := core.Pick(rr, []int{100, 334, 500, 1000, 2000})
		t, err := w.addTask("t1", root.Integrations[0], "src1", 1, 0, batch, 1+rr.Intn(2))
		if err != nil {
			w.close()
			return err
		}
		w.step(t, noFault)
		npos := 5 + rr.Intn(4)
		for i := 0; i < npos && !w.dead; i++ {
			w.grow(1)
			w.step(t, noFault)
		}
		depth := 3 + rr.Intn(npos-3)
		w.reorg(depth, depth+1)
		w.grow(1)
		for k := 0; k < 40 && !w.dead; k++ {
			if out := w.step(t, noFault); out == "nothing-new" && w.taskTop(t) == w.head() {
				break
			}
		}
		oracles := []string{w.projOracle(t, 0)}
		if w.taskTop(t) != w.head() {
			e.Add(core.Case{Impl: fmt.Sprintf("batch_size %d: task stuck at %d of %d after a reorg of depth %d", batch, w.taskTop(t), w.head(), depth), Spec: "converged", Key: fmt.Sprintf("c03-big-stuck %d", rep)})
		}
		op, impl := w.caseOp()
		e.Add(core.Case{Op: op, Impl: impl, Oracles: oracles, Nontrivial: true, Key: fmt.Sprintf("c03-bigbatch %d %d", rep, e.Seed), Tags: []string{"large-batch-deep-reorg", fmt.Sprintf("batch=%d", batch)}})
		w.close()
	}
	// ---- a reorg that lands BETWEEN THE PARTITION REQUESTS of one step, for a plan that fetches blocks
	// only (transaction-indexing: no log or receipt request cross-checks the block hash): the partition
	// answered first comes from the old fork, the one answered second from the new fork, and the fork
	// point lies inside the first partition's range
	for rep := 0; rep < e.N(6, 40) && !e.OverBudget(); rep++ {
		rr := r.Fork()
		chain := transferChain(8+rr.Intn(3), uint64(1+rr.Intn(1000)))
		w, err := newWorld(e, chain)
		if err != nil {
			return err
		}
		midBatch := rep%3 == 2 // (beyond the stated quantifier: the reply to ONE batch request mixes two forks)
		cachedClient := rep%2 == 1 || midBatch
		if cachedClient {
			w.client = jrpc2.New(w.node.URL()).WithMaxReads(2 + rr.Intn(3)).WithPollDuration(time.Hour)
		}
		root := config.Root{Integrations: []config.Integration{txIG("ig1", "t1", []string{"tx_hash", "block_time"})}}
		if err := w.setupRoot(&root); err != nil {
			w.close()
			return err
		}
		conc := 2 + rr.Intn(2)
		part := 2
		if midBatch {
			conc, part = 1, 3+rr.Intn(2)
		}
		t, err := w.addTask("t1", root.Integrations[0], "src1", 1, 0, conc*part, conc)
		if err != nil {
			w.close()
			return err
		}
		w.salt++
		salt := w.salt
		n := 0
		w.node.SetBefore(func(ex *simnode.Exchange) {
			isBlocks := len(ex.Requests) > 0
			for _, rq := range ex.Requests {
				isBlocks = isBlocks && rq.Method == "eth_getBlockByNumber" && ex.Batch
			}
			if !isBlocks {
				return
			}
			n++
			if n == 2 && !midBatch { // just before the second partition is answered
				c := w.node.Chain()
				// replace everything from block 2 on (block 2 lies in whichever partition holds [1,2] or [3,4]... the
				// fork point 2 is inside the first partition's range [1,2])
				c.Reorg(len(c.Blocks)-2, len(c.Blocks)-2+rr.Intn(2), simnode.GenOpts{Salt: salt, MakeTx: transferMakeTx})
			}
		})
		if midBatch {
			fired := false
			w.node.SetAfter(func(ex *simnode.Exchange) {
				if fired || !ex.Batch || len(ex.Requests) < 2 || len(ex.Responses) != len(ex.Requests) {
					return
				}
				for _, rq := range ex.Requests {
					if rq.Method != "eth_getBlockByNumber" {
						return
					}
				}
				fired = true
				c := w.node.Chain()
				// blocks 2.. are replaced AFTER the first elements were rendered; only the last element is re-rendered
				c.Reorg(len(c.Blocks)-2, len(c.Blocks)-2+1, simnode.GenOpts{Salt: salt, MakeTx: transferMakeTx})
				w.node.Redispatch(ex, len(ex.Responses)-1)
			})
		}
		w.step(t, noFault)
		w.node.SetBefore(nil)
		w.node.SetAfter(nil)
		if midBatch {
			w.step(t, noFault) // the retry asks for the same range again
			w.tags["reorg-mid-batch-deterministic"]++
		}
		w.tags["reorg-between-partitions"]++
		w.grow(2)
		for k := 0; k < 60 && !w.dead; k++ {
			if out := w.step(t, noFault); out == "nothing-new" && w.taskTop(t) == w.head() {
				break
			}
		}
		oracles := []string{w.projOracle(t, 0)}
		if w.taskTop(t) != w.head() {
			e.Add(core.Case{Impl: fmt.Sprintf("task stuck at %d of %d", w.taskTop(t), w.head()), Spec: "converged", Key: fmt.Sprintf("c03-part-stuck %d", rep)})
		}
		op, impl := w.caseOp()
		e.Add(core.Case{Op: op, Impl: impl, Oracles: oracles, Nontrivial: true, Key: fmt.Sprintf("c03-part %d %d", rep, e.Seed),
			Tags: []string{"reorg-between-partitions", fmt.Sprintf("cached-client=%v", cachedClient), fmt.Sprintf("partitions=%d", conc), fmt.Sprintf("mid-batch=%v", midBatch)}, Detail: map[string]any{"history": strings.Split(op, "\n")}})
		w.close()
	}
	// ---- a reorg that lands INSIDE ONE Get, between its header request and its eth_getLogs request (a plan of
	// headers + logs: the headers are of the old fork, the logs name the new fork's blocks). The step must fail
	// or unwind; afterwards the table is the projection of the canonical chain.
	for rep := 0; rep < e.N(4, 16) && !e.OverBudget(); rep++ {
		rr := r.Fork()
		w, err := newWorld(e, transferChain(8+rr.Intn(3), uint64(1+rr.Intn(1000))))
		if err != nil {
			return err
		}
		cachedClient := rep%2 == 1
		if cachedClient {
			w.client = jrpc2.New(w.node.URL()).WithMaxReads(2 + rr.Intn(3)).WithPollDuration(time.Hour)
		}
		root := config.Root{Integrations: []config.Integration{transferIG("ig1", "t1", []string{"block_time"}, nil)}}
		if err := w.setupRoot(&root); err != nil {
			w.close()
			return err
		}
		t, err := w.addTask("t1", root.Integrations[0], "src1", 1, 0, 1+rep%3, 1)
		if err != nil {
			w.close()
			return err
		}
		// index all but the last blocks, so that the next step reads at the head
		for k := 0; k < 30 && !w.dead && w.taskTop(t) != w.head(); k++ {
			w.step(t, noFault)
		}
		w.grow(1 + rep%3)
		w.salt++
		salt := w.salt
		depth := 2 + rr.Intn(2)
		fired := false
		w.node.SetBefore(func(ex *simnode.Exchange) {
			if fired {
				return
			}
			for _, rq := range ex.Requests {
				if rq.Method == "eth_getLogs" {
					fired = true
					c := w.node.Chain()
					if d := min(depth, len(c.Blocks)-2); d >= 1 {
						c.Reorg(d, d+1, simnode.GenOpts{Salt: salt, MakeTx: transferMakeTx})
					}
					return
				}
			}
		})
		w.step(t, noFault)
		w.node.SetBefore(nil)
		w.tags["reorg-between-headers-and-logs"]++
		w.grow(1)
		for k := 0; k < 60 && !w.dead; k++ {
			if out := w.step(t, noFault); out == "nothing-new" && w.taskTop(t) == w.head() {
				break
			}
		}
		if w.taskTop(t) != w.head() {
			e.Add(core.Case{Impl: fmt.Sprintf("task stuck at %d of %d", w.taskTop(t), w.head()), Spec: "converged", Key: fmt.Sprintf("c03-hl-stuck %d", rep)})
		}
		op, impl := w.caseOp()
		e.Add(core.Case{Op: op, Impl: impl, Oracles: []string{w.projOracle(t, 0)}, Nontrivial: true, Key: fmt.Sprintf("c03-headers-logs %d %d", rep, e.Seed),
			Tags: []string{"reorg-between-headers-and-logs", fmt.Sprintf("cached-client=%v", cachedClient), fmt.Sprintf("fired=%v", fired)}, Detail: map[string]any{"history": strings.Split(op, "\n")}})
		w.close()
	}
	return nil
}

func (w *world) taskTop(t *wTask) uint64 {
	_, top, has, _ := w.taskRows(t)
	if !has {
		return 0
	}
	return top
}
