package props

import (
	"context"
	"crypto/sha256"
	"errors"
	"fmt"
	"path/filepath"
	"sort"
	"strings"
	"sync"
	"time"

	"github.com/indexsupply/shovel/dig"
	"github.com/indexsupply/shovel/eth"
	"github.com/indexsupply/shovel/jrpc2"
	"github.com/indexsupply/shovel/shovel"
	"github.com/indexsupply/shovel/shovel/config"
	"github.com/indexsupply/shovel/shovel/glf"
	"github.com/indexsupply/shovel/wctx"
	"github.com/indexsupply/shovel/wpg"
	"github.com/jackc/pgx/v5/pgxpool"

	"verifharness/core"
	"verifharness/fakepg"
	"verifharness/simnode"
)

// ---------------------------------------------------------------------------------------------
// World harness: the REAL shovel.Task (Converge/load/insert/update/Delete) on a fake PostgreSQL
// (wire protocol) and the REAL jrpc2 client against a simulated node. Every step is mirrored by
// one `w-step` line for the Lean World model, carrying what the source answered during the step.
// ---------------------------------------------------------------------------------------------

func short(s string) string {
	h := sha256.Sum256([]byte(s))
	return fmt.Sprintf("%x", h[:5])
}

func renderPG(v fakepg.Value) string {
	switch x := v.(type) {
	case nil:
		return "nil"
	case bool:
		return fmt.Sprintf("b:%v", x)
	case string:
		return fmt.Sprintf("s:%x", x)
	case []byte:
		return fmt.Sprintf("x:%x", x)
	case fakepg.Num:
		return "n:" + string(x)
	case fakepg.Interval:
		return fmt.Sprintf("i:%d", int64(x))
	case fakepg.JSON:
		return "j:" + string(x)
	}
	return fmt.Sprintf("?%T", v)
}

// recSource wraps the real client and records what it answered during one step.
type recSource struct {
	inner  shovel.Source
	mu     sync.Mutex
	latest []string
	hash   []string
	gets   []string
	proj   func(b *eth.Block) string // rows digest of a fetched block ("k~p+k~p")
	failAt int                       // inject: the n-th source call of the step fails (1-based; 0 = never)
	calls  int
}

func (r *recSource) reset(failAt int) {
	r.mu.Lock()
	r.latest, r.hash, r.gets, r.calls, r.failAt = nil, nil, nil, 0, failAt
	r.mu.Unlock()
}

func (r *recSource) inject() bool {
	r.mu.Lock()
	defer r.mu.Unlock()
	r.calls++
	return r.failAt > 0 && r.calls == r.failAt
}

func (r *recSource) NextURL() *jrpc2.URL { return r.inner.NextURL() }

func (r *recSource) Latest(ctx context.Context, url string, n uint64) (uint64, []byte, error) {
	if r.inject() {
		r.mu.Lock()
		r.latest = append(r.latest, "!")
		r.mu.Unlock()
		return 0, nil, errors.New("injected source fault")
	}
	num, h, err := r.inner.Latest(ctx, url, n)
	r.mu.Lock()
	defer r.mu.Unlock()
	if err != nil {
		r.latest = append(r.latest, "!")
	} else {
		r.latest = append(r.latest, fmt.Sprintf("%d:%x", num, h))
	}
	return num, h, err
}

func (r *recSource) Hash(ctx context.Context, url string, n uint64) ([]byte, error) {
	if r.inject() {
		r.mu.Lock()
		r.hash = append(r.hash, fmt.Sprintf("%d=!", n))
		r.mu.Unlock()
		return nil, errors.New("injected source fault")
	}
	h, err := r.inner.Hash(ctx, url, n)
	r.mu.Lock()
	defer r.mu.Unlock()
	if err != nil {
		r.hash = append(r.hash, fmt.Sprintf("%d=!", n))
	} else {
		r.hash = append(r.hash, fmt.Sprintf("%d=%x", n, h))
	}
	return h, err
}

func (r *recSource) Get(ctx context.Context, url string, f *glf.Filter, start, limit uint64) ([]eth.Block, error) {
	if r.inject() {
		r.mu.Lock()
		r.gets = append(r.gets, fmt.Sprintf("%d:%d=!", start, limit))
		r.mu.Unlock()
		return nil, errors.New("injected source fault")
	}
	bs, err := r.inner.Get(ctx, url, f, start, limit)
	r.mu.Lock()
	defer r.mu.Unlock()
	if err != nil {
		r.gets = append(r.gets, fmt.Sprintf("%d:%d=!", start, limit))
		return bs, err
	}
	var parts []string
	for i := range bs {
		parent := "-"
		if len(bs[i].Header.Parent) > 0 {
			parent = fmt.Sprintf("%x", bs[i].Header.Parent)
		}
		h := fmt.Sprintf("%x", bs[i].Hash())
		if h == "" {
			h = "-"
		}
		parts = append(parts, fmt.Sprintf("%d/%s/%s/%s", bs[i].Num(), h, parent, r.proj(&bs[i])))
	}
	r.gets = append(r.gets, fmt.Sprintf("%d:%d=%s", start, limit, strings.Join(parts, "|")))
	return bs, nil
}

func listTok(xs []string, sep string) string {
	if len(xs) == 0 {
		return "_"
	}
	return strings.Join(xs, sep)
}

type wTask struct {
	id, src, ig, table string
	start, stop        uint64
	batch, conc        int
	deps               []string
	cig                config.Integration
	side               dig.Integration // separate instance used only to project blocks (never shared with the task)
	sideMu             sync.Mutex
	task               *shovel.Task
	rec                *recSource
	cols               []string
	uniq               []string
}

type world struct {
	e      *core.Env
	ctx    context.Context
	pg     *fakepg.Server
	url    string
	pool   *pgxpool.Pool
	node   *simnode.Node
	client *jrpc2.Client
	tasks  []*wTask
	ops    []string
	outs   []string
	tags   map[string]int
	salt   uint64
	closed bool
	dead   bool                                        // a step timed out; no further operations
	mkTx   func(salt, num, idx uint64, tx *simnode.Tx) // transactions of blocks added later (default transferMakeTx)
}

const stepTimeout = 4 * time.Second

func newWorld(e *core.Env, chain *simnode.Chain) (*world, error) {
	w := &world{e: e, ctx: context.Background(), tags: map[string]int{}, salt: 100}
	w.pg = fakepg.New()
	url, err := w.pg.Start()
	if err != nil {
		return nil, err
	}
	w.url = url
	if err := w.newPool(); err != nil {
		return nil, err
	}
	w.node = simnode.NewNode(chain)
	w.client = jrpc2.New(w.node.URL() + "/nocache").WithMaxReads(0).WithPollDuration(time.Hour)
	w.ops = append(w.ops, "w-init")
	w.outs = append(w.outs, "ok")
	return w, nil
}

func (w *world) newPool() error {
	if w.pool != nil {
		done := make(chan struct{})
		go func() { w.pool.Close(); close(done) }()
		select {
		case <-done:
		case <-time.After(2 * time.Second):
		}
	}
	cfg, err := pgxpool.ParseConfig(w.url)
	if err != nil {
		return err
	}
	cfg.MaxConns = 8
	p, err := pgxpool.NewWithConfig(w.ctx, cfg)
	if err != nil {
		return err
	}
	w.pool = p
	return nil
}

func (w *world) close() {
	if w.closed {
		return
	}
	w.closed = true
	done := make(chan struct{})
	go func() { w.pool.Close(); close(done) }()
	select {
	case <-done:
	case <-time.After(2 * time.Second):
	}
	w.node.Close()
	w.pg.Close()
}

// addTask declares an integration (already validated in `root`) and builds the real task.
func (w *world) addTask(id string, cig config.Integration, src string, start, stop uint64, batch, conc int) (*wTask, error) {
	t := &wTask{id: id, src: src, ig: cig.Name, table: cig.Table.Name, start: start, stop: stop, batch: batch, conc: conc, deps: cig.Dependencies, cig: cig}
	side, err := dig.New(cig.Name, cig.Event, cig.Block, cig.Table, cig.Notification, cig.FilterAGG)
	if err != nil {
		return nil, err
	}
	t.side = side
	for _, c := range cig.Table.Columns {
		t.cols = append(t.cols, c.Name)
	}
	sort.Strings(t.cols)
	if len(cig.Table.Unique) > 0 {
		t.uniq = cig.Table.Unique[0]
	}
	t.rec = &recSource{inner: w.client}
	t.rec.proj = func(b *eth.Block) string { return t.project(w, b) }
	if err := w.buildTask(t); err != nil {
		return nil, err
	}
	w.tasks = append(w.tasks, t)
	deps := "_"
	if len(t.deps) > 0 {
		deps = strings.Join(t.deps, ",")
	}
	w.ops = append(w.ops, fmt.Sprintf("w-task %s %s %s %s %d %d %d %d %s", id, src, t.ig, t.table, start, stop, max(batch, 1), max(conc, 1), deps))
	w.outs = append(w.outs, "ok")
	return t, nil
}

func (w *world) taskCtx(t *wTask) context.Context {
	ctx := wctx.WithChainID(w.ctx, 7)
	ctx = wctx.WithSrcName(ctx, t.src)
	ctx = wctx.WithIGName(ctx, t.ig)
	return ctx
}

func (w *world) buildTask(t *wTask) error {
	task, err := shovel.NewTask(
		shovel.WithContext(w.taskCtx(t)),
		shovel.WithPG(w.pool),
		shovel.WithRange(t.start, t.stop),
		shovel.WithConcurrency(t.conc, t.batch),
		shovel.WithSrcName(t.src),
		shovel.WithChainID(7),
		shovel.WithSource(t.rec),
		shovel.WithIntegration(t.cig),
	)
	if err != nil {
		return err
	}
	t.task = task
	return nil
}

// rowDigest renders one destination row (column -> rendered value) as (unique key, payload digest)
func (t *wTask) rowDigest(vals map[string]string) (string, string) {
	var kp, pp []string
	for _, c := range t.uniq {
		v, ok := vals[c]
		if !ok {
			v = "nil"
		}
		kp = append(kp, v)
	}
	for _, c := range t.cols {
		v, ok := vals[c]
		if !ok {
			v = "nil"
		}
		pp = append(pp, c+"="+v)
	}
	return short(strings.Join(kp, "|")), short(strings.Join(pp, ";"))
}

// project: the rows the declaration derives from one fetched block, through the real row builder
func (t *wTask) project(w *world, b *eth.Block) string {
	t.sideMu.Lock()
	defer t.sideMu.Unlock()
	fc := &fakeConn{refs: map[string]map[string]bool{}}
	// reference lookups see the committed destination tables
	for _, bd := range t.cig.Block {
		if bd.Filter.Ref.Table != "" {
			set := map[string]bool{}
			for _, r := range w.pg.Rows(bd.Filter.Ref.Table) {
				if bv, ok := r[bd.Filter.Ref.Column].([]byte); ok {
					set[fmt.Sprintf("%x", bv)] = true
				}
			}
			fc.refs[bd.Filter.Ref.Table+"."+bd.Filter.Ref.Column] = set
		}
	}
	for _, in := range t.cig.Event.Inputs {
		if in.Filter.Ref.Table != "" {
			set := map[string]bool{}
			for _, r := range w.pg.Rows(in.Filter.Ref.Table) {
				if bv, ok := r[in.Filter.Ref.Column].([]byte); ok {
					set[fmt.Sprintf("%x", bv)] = true
				}
			}
			fc.refs[in.Filter.Ref.Table+"."+in.Filter.Ref.Column] = set
		}
	}
	var mu sync.Mutex
	cp := eth.Block{Header: b.Header, Txs: b.Txs}
	res := core.Protect(func() string {
		if _, err := t.side.Insert(w.taskCtx(t), &mu, fc, []eth.Block{cp}); err != nil {
			return "!err"
		}
		return ""
	})
	if res != "" || len(fc.copies) == 0 {
		return ""
	}
	var out []string
	for _, m := range copyRowMaps(fc.copies[0]) {
		k, p := t.rowDigest(m)
		out = append(out, k+"~"+p)
	}
	return strings.Join(out, "+")
}

func pad12(n string) string {
	for len(n) < 12 {
		n = "0" + n
	}
	return n
}

// digest of the committed database in the model's format
func (w *world) digest() string {
	var cs, rs []string
	for _, r := range w.pg.Rows("shovel.task_updates") {
		num, _ := r["num"].(fakepg.Num)
		src, _ := r["src_name"].(string)
		ig, _ := r["ig_name"].(string)
		h, _ := r["hash"].([]byte)
		hs := fmt.Sprintf("%x", h)
		if hs == "" {
			hs = "-"
		}
		cs = append(cs, fmt.Sprintf("%s/%s/%s/%s", src, ig, pad12(string(num)), hs))
	}
	seen := map[string]bool{}
	for _, t := range w.tasks {
		if seen[t.table] {
			continue
		}
		seen[t.table] = true
		for _, r := range w.pg.Rows(t.table) {
			vals := map[string]string{}
			for c, v := range r {
				vals[c] = renderPG(v)
			}
			// the owner task decides the unique columns; rows carry their own (src, ig)
			src, _ := r["src_name"].(string)
			ig, _ := r["ig_name"].(string)
			bn, _ := r["block_num"].(fakepg.Num)
			owner := t
			for _, o := range w.tasks {
				if o.table == t.table && o.ig == ig {
					owner = o
				}
			}
			k, p := owner.rowDigest(vals)
			rs = append(rs, fmt.Sprintf("%s/%s/%s/%s/%s/%s", t.table, src, ig, pad12(string(bn)), k, p))
		}
	}
	sort.Strings(cs)
	sort.Strings(rs)
	return "C[" + strings.Join(cs, ",") + "] R[" + strings.Join(rs, ",") + "]"
}

// fault plan for one step
type wFault struct {
	dbIndex int          // k-th database operation of the step (0-based), -1 = none
	kind    fakepg.Fault // ErrorReply | DropConn | DropAll
	srcCall int          // n-th source call fails (1-based), 0 = none
}

var noFault = wFault{dbIndex: -1}

func classify(ev fakepg.Event, nBegin, nCommit, nLatest, nDeps, nDel, nPrev, nDelRows *int) string {
	sql := strings.ToLower(strings.Join(strings.Fields(ev.SQL), " "))
	switch ev.Kind {
	case "begin":
		*nBegin++
		return fmt.Sprintf("begin%d", *nBegin)
	case "commit":
		*nCommit++
		return fmt.Sprintf("commit%d", *nCommit)
	case "rollback", "connlost":
		return ""
	case "copy":
		return "insert"
	}
	switch {
	case strings.Contains(sql, "distinct on"):
		*nDeps++
		return fmt.Sprintf("qdeps#%d", *nDeps-1)
	case strings.HasPrefix(sql, "select num, hash from shovel.task_updates"):
		*nLatest++
		return fmt.Sprintf("qlatest#%d", *nLatest-1)
	case strings.HasPrefix(sql, "select num from shovel.task_updates"):
		*nPrev++
		return fmt.Sprintf("qprev#%d", *nPrev-1)
	case strings.HasPrefix(sql, "delete from shovel.task_updates"):
		*nDel++
		return fmt.Sprintf("delcur#%d", *nDel-1)
	case strings.HasPrefix(sql, "delete from"):
		*nDelRows++
		return fmt.Sprintf("delrows#%d", *nDelRows-1)
	case strings.HasPrefix(sql, "insert into shovel.task_updates"):
		return "update"
	case strings.HasPrefix(sql, "select true from"), strings.Contains(sql, "pg_notify"):
		return "insert"
	}
	return "?" + sql
}

// step runs one Converge of task t under the fault plan and records model op + impl outcome.
func (w *world) step(t *wTask, f wFault) (outcome string) {
	if w.dead {
		return "timeout"
	}
	t.rec.reset(f.srcCall)
	w.pg.ResetLog()
	var dbOps int
	var hitMu sync.Mutex
	if f.dbIndex >= 0 {
		w.pg.SetFaultHook(func(ev fakepg.Event) fakepg.Fault {
			if ev.Kind == "rollback" || ev.Kind == "connlost" {
				return fakepg.NoFault
			}
			hitMu.Lock()
			defer hitMu.Unlock()
			k := dbOps
			dbOps++
			if k == f.dbIndex {
				return f.kind
			}
			return fakepg.NoFault
		})
	}
	var err error
	res := ""
	done := make(chan struct{})
	go func() {
		defer close(done)
		res = core.Protect(func() string {
			err = t.task.Converge()
			return ""
		})
	}()
	select {
	case <-done:
	case <-time.After(stepTimeout):
		// the step does not terminate promptly: abandon this world (the goroutine is left behind)
		w.dead = true
		w.pg.SetFaultHook(nil)
		w.tags["outcome:timeout"]++
		w.ops = append(w.ops, fmt.Sprintf("w-step %s - _ _ _", t.id))
		w.outs = append(w.outs, "timeout")
		return "timeout"
	}
	w.pg.SetFaultHook(nil)
	// symbolic position of the fault that struck
	pos := "-"
	var nb, nc, nl, nd, ndel, np, ndr int
	for _, ev := range w.pg.Log() {
		p := classify(ev, &nb, &nc, &nl, &nd, &ndel, &np, &ndr)
		if p == "" {
			continue
		}
		if strings.HasPrefix(p, "delcur") && ev.Err == "" {
			w.tags["unwind"]++
		}
		if ev.Err == "XX000" || ev.Err == "dropconn" || ev.Err == "dropall" {
			pos = p
			break
		}
	}
	switch {
	case res == "panic":
		outcome = "panic"
	case err == nil:
		top := uint64(0)
		for _, r := range w.pg.Rows("shovel.task_updates") {
			if r["src_name"] == t.src && r["ig_name"] == t.ig {
				var n uint64
				fmt.Sscan(string(r["num"].(fakepg.Num)), &n)
				top = max(top, n)
			}
		}
		outcome = fmt.Sprintf("ok %d", top)
	case errors.Is(err, shovel.ErrDone):
		outcome = "done"
	case errors.Is(err, shovel.ErrNothingNew):
		outcome = "nothing-new"
	case errors.Is(err, shovel.ErrAhead):
		outcome = "ahead"
	case errors.Is(err, shovel.ErrReorg):
		outcome = "reorg-limit"
	default:
		outcome = "err"
	}
	w.tags["outcome:"+strings.SplitN(outcome, " ", 2)[0]]++
	if pos != "-" {
		w.tags["fault:"+strings.SplitN(pos, "#", 2)[0]]++
	}
	if f.srcCall > 0 {
		w.tags["fault:source"]++
	}
	w.ops = append(w.ops, fmt.Sprintf("w-step %s %s %s %s %s", t.id, pos, listTok(t.rec.latest, ","), listTok(t.rec.hash, ","), listTok(t.rec.gets, ";")))
	w.outs = append(w.outs, outcome+" "+w.digest())
	// heal the pool after connection faults (dead idle connections cost one failed operation each)
	if f.dbIndex >= 0 && f.kind != fakepg.ErrorReply {
		w.pool.Reset()
		time.Sleep(2 * time.Millisecond)
	}
	if f.dbIndex >= 0 && f.kind == fakepg.DropAll {
		// process death: all in-memory state is discarded
		w.newPool()
		for _, o := range w.tasks {
			w.buildTask(o)
		}
	}
	return outcome
}

func (w *world) caseOp() (string, string) {
	return strings.Join(w.ops, "\n"), strings.Join(w.outs, "\n")
}

// ---- declarations used by the world runs ----

func transferIG(name, table string, extraFields []string, mod func(*config.Integration)) config.Integration {
	ig := config.Integration{Name: name, Enabled: true}
	ig.Table.Name = table
	ig.Table.Columns = append(ig.Table.Columns, transferCols...)
	ig.Event = transferEvent
	for _, f := range extraFields {
		ig.Block = append(ig.Block, dig.BlockData{Name: f, Column: f})
		ig.Table.Columns = append(ig.Table.Columns, wpg.Column{Name: f, Type: fieldType(f)})
	}
	if mod != nil {
		mod(&ig)
	}
	return ig
}

// txIG: a transaction-indexing integration (no event): one row per transaction, served from
// eth_getBlockByNumber alone - no log or receipt request whose block hash would be cross-checked
func txIG(name, table string, fields []string) config.Integration {
	ig := config.Integration{Name: name, Enabled: true}
	ig.Table.Name = table
	for _, f := range fields {
		ig.Block = append(ig.Block, dig.BlockData{Name: f, Column: f})
		ig.Table.Columns = append(ig.Table.Columns, wpg.Column{Name: f, Type: fieldType(f)})
	}
	return ig
}

// traceIG: a trace-indexing integration (no event): one row per trace action (blocks + trace_block)
func traceIG(name, table string) config.Integration {
	return txIG(name, table, []string{"trace_action_from", "trace_action_to", "trace_action_value", "tx_hash"})
}

// approvalIG: like transferIG but on the Approval event (the second log of every transaction)
func approvalIG(name, table string, extraFields []string, mod func(*config.Integration)) config.Integration {
	ig := config.Integration{Name: name, Enabled: true}
	ig.Table.Name = table
	ig.Table.Columns = append(ig.Table.Columns, approvalCols...)
	ig.Event = approvalEvent
	for _, f := range extraFields {
		ig.Block = append(ig.Block, dig.BlockData{Name: f, Column: f})
		ig.Table.Columns = append(ig.Table.Columns, wpg.Column{Name: f, Type: fieldType(f)})
	}
	if mod != nil {
		mod(&ig)
	}
	return ig
}

// setupRoot validates the configuration with the real ValidateFix and creates the tables with the
// real Migrate (DDL executed by fakepg).
func (w *world) setupRoot(root *config.Root) error {
	if err := config.ValidateFix(root); err != nil {
		return err
	}
	conn, err := w.pool.Acquire(w.ctx)
	if err != nil {
		return err
	}
	defer conn.Release()
	return config.Migrate(w.ctx, conn, *root)
}

// ---- snapshots (exhaustive fault enumeration replays the same step from the same state) ----

func (w *world) save(name string, snaps map[string]*fakepg.DB) {
	snaps[name] = w.pg.Snapshot()
	w.ops = append(w.ops, "w-save "+name)
	w.outs = append(w.outs, "ok")
}

func (w *world) load(name string, snaps map[string]*fakepg.DB) {
	w.pg.Restore(snaps[name])
	w.ops = append(w.ops, "w-load "+name)
	w.outs = append(w.outs, "ok")
}

// number of database operations / source calls of the last step
func (w *world) lastCounts(t *wTask) (db int, src int) {
	for _, ev := range w.pg.Log() {
		if ev.Kind == "rollback" || ev.Kind == "connlost" {
			continue
		}
		db++
	}
	return db, t.rec.calls
}

func (w *world) head() uint64 {
	var h uint64
	w.node.With(func(c *simnode.Chain) { h = c.Head().Num })
	return h
}

func (w *world) makeTx() func(salt, num, idx uint64, tx *simnode.Tx) {
	if w.mkTx != nil {
		return w.mkTx
	}
	return transferMakeTx
}

func (w *world) grow(k int) {
	w.salt++
	w.node.With(func(c *simnode.Chain) { c.Grow(k, simnode.GenOpts{Salt: w.salt, MakeTx: w.makeTx()}) })
	w.tags["grow"]++
}

func (w *world) reorg(depth, newLen int) {
	w.salt++
	w.node.With(func(c *simnode.Chain) {
		if depth >= len(c.Blocks) {
			depth = len(c.Blocks) - 1
		}
		c.Reorg(depth, newLen, simnode.GenOpts{Salt: w.salt, MakeTx: w.makeTx()})
	})
	w.tags["reorg"]++
}

// prune: the REAL shovel.PruneTask (main runs it every ten minutes next to the tasks): per (source,
// integration) only the n newest recorded positions are kept
func (w *world) prune(n int) string {
	out := core.Protect(func() string {
		if err := shovel.PruneTask(w.ctx, w.pool, n); err != nil {
			return "err"
		}
		return w.digest()
	})
	w.ops = append(w.ops, fmt.Sprintf("w-prune %d", n))
	w.outs = append(w.outs, out)
	w.tags["prune"]++
	return out
}

// withinOracle: no row of t lies beyond its recorded position or outside (lo, stop]
func (w *world) withinOracle(t *wTask, lo uint64) string {
	rows, top, has, _ := w.taskRows(t)
	if !has {
		top = lo
	}
	return fmt.Sprintf("w-within %d %d %d %s", lo, top, t.stop, listTok(rows, ","))
}

func jrpcFor(node *simnode.Node) shovel.Source {
	return jrpc2.New(node.URL() + "/nocache").WithMaxReads(0).WithPollDuration(time.Hour)
}

func filepathGlob(p string) ([]string, error) { return filepath.Glob(p) }
