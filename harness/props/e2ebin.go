package props

import (
	"bytes"
	"context"
	"fmt"
	"net"
	"net/http"
	"os"
	"os/exec"
	"path/filepath"
	"strings"
	"sync"
	"time"

	"verifharness/core"
	"verifharness/fakepg"
)

// The REAL shovel binary (cmd/shovel: flag handling, migration, manager, dashboard wiring with its
// middleware) built from the repository's working tree and run as a process against the fake
// PostgreSQL server. Nothing of package main can be imported, so this is the only way to execute the
// wiring of main() itself.

var (
	shovelBinMu   sync.Mutex
	shovelBinPath string
)

func buildShovelBinary(e *core.Env) (string, error) {
	shovelBinMu.Lock()
	defer shovelBinMu.Unlock()
	if shovelBinPath != "" {
		if _, err := os.Stat(shovelBinPath); err == nil {
			return shovelBinPath, nil
		}
	}
	dir := filepath.Join(e.VerifDir, "harness", "bin")
	os.MkdirAll(dir, 0o755)
	if old, _ := filepath.Glob(filepath.Join(dir, "shovel-under-test-*")); len(old) > 0 {
		for _, f := range old { // left behind by a run that was killed
			if st, err := os.Stat(f); err == nil && time.Since(st.ModTime()) > 30*time.Minute {
				os.Remove(f)
			}
		}
	}
	out := filepath.Join(dir, fmt.Sprintf("shovel-under-test-%d", os.Getpid()))
	cmd := exec.Command("go", "build", "-o", out, "./cmd/shovel")
	cmd.Dir = e.RepoDir
	cmd.Env = append(os.Environ(), "GOFLAGS=-mod=mod", "GOPROXY=off", "GOSUMDB=off", "GOTOOLCHAIN=local")
	if b, err := cmd.CombinedOutput(); err != nil {
		return "", fmt.Errorf("building cmd/shovel: %v: %s", err, b)
	}
	shovelBinPath = out
	return out, nil
}

func removeShovelBinary() {
	shovelBinMu.Lock()
	defer shovelBinMu.Unlock()
	if shovelBinPath != "" {
		os.Remove(shovelBinPath)
		shovelBinPath = ""
	}
}

type shovelProc struct {
	pg   *fakepg.Server
	cmd  *exec.Cmd
	port int
	out  *bytes.Buffer
	dir  string
}

func freePort() int {
	l, err := net.Listen("tcp", "[::]:0")
	if err != nil {
		l, err = net.Listen("tcp", "127.0.0.1:0")
		if err != nil {
			return 0
		}
	}
	defer l.Close()
	return l.Addr().(*net.TCPAddr).Port
}

// startShovel runs the binary with the given configuration document (pg_url is filled in) and waits
// until its dashboard answers.
func startShovel(e *core.Env, confDoc func(pgurl string) string, env ...string) (*shovelProc, error) {
	pg := fakepg.New()
	url, err := pg.Start()
	if err != nil {
		return nil, err
	}
	p, err := startShovelOn(e, url, confDoc, env...)
	if err != nil {
		pg.Close()
		return nil, err
	}
	p.pg = pg
	return p, nil
}

// gojsonCrash: the recorded finding `<property>.gojson_decoder_crash` — the process dies with a nil
// pointer dereference inside goccy/go-json's struct decoder, called from jrpc2.(*Client).do
func gojsonCrash(out string) bool {
	return strings.Contains(out, "goccy/go-json/internal/decoder.(*structDecoder).DecodeStream") &&
		strings.Contains(out, "jrpc2.(*Client).do") && strings.Contains(out, "nil pointer dereference")
}

// startShovelOn: the same against a fake PostgreSQL the caller owns (it survives the process). A start
// that dies of the recorded go-json crash is reported under that finding's class and the program is
// started again, as a supervisor would (at most three times).
func startShovelOn(e *core.Env, url string, confDoc func(pgurl string) string, env ...string) (*shovelProc, error) {
	var p *shovelProc
	var err error
	for attempt := 0; attempt < 3; attempt++ {
		p, err = startShovelOnce(e, url, confDoc, env...)
		if err == nil || !gojsonCrash(err.Error()) {
			return p, err
		}
		e.Add(core.Case{Impl: "the shovel process died while starting: " + err.Error(), Spec: "started", Class: e.Prop + ".gojson_decoder_crash",
			Key: fmt.Sprintf("gojson-crash %d %d", time.Now().UnixNano(), attempt), Nontrivial: true, Tags: []string{"binary", "go-json-decoder-crash-at-start-up"}})
	}
	return p, err
}

func startShovelOnce(e *core.Env, url string, confDoc func(pgurl string) string, env ...string) (*shovelProc, error) {
	bin, err := buildShovelBinary(e)
	if err != nil {
		return nil, err
	}
	p := &shovelProc{out: &bytes.Buffer{}}
	p.dir, err = os.MkdirTemp("", "shovel-e2e-")
	if err != nil {
		return nil, err
	}
	cf := filepath.Join(p.dir, "config.json")
	if err := os.WriteFile(cf, []byte(confDoc(url)), 0o600); err != nil {
		p.stop()
		return nil, err
	}
	p.port = freePort()
	p.cmd = exec.Command(bin, "-config", cf, "-l", fmt.Sprintf(":%d", p.port))
	p.cmd.Dir = p.dir
	p.cmd.Env = append(os.Environ(), env...)
	p.cmd.Stdout, p.cmd.Stderr = p.out, p.out
	if err := p.cmd.Start(); err != nil {
		p.stop()
		return nil, err
	}
	exited := make(chan struct{})
	go func() { p.cmd.Wait(); close(exited) }()
	cl := &http.Client{Timeout: time.Second}
	for t0 := time.Now(); time.Since(t0) < 15*time.Second; time.Sleep(50 * time.Millisecond) {
		select {
		case <-exited:
			out := p.out.String()
			p.stop()
			return nil, fmt.Errorf("shovel exited during start-up: %s", lastLines(out, 40))
		default:
		}
		if resp, err := cl.Get(fmt.Sprintf("http://127.0.0.1:%d/login", p.port)); err == nil {
			resp.Body.Close()
			return p, nil
		}
	}
	out := p.out.String()
	p.stop()
	return nil, fmt.Errorf("the dashboard did not come up: %s", lastLines(out, 40))
}

func lastLines(s string, n int) string {
	ls := strings.Split(strings.TrimSpace(s), "\n")
	if len(ls) > n {
		ls = ls[len(ls)-n:]
	}
	return strings.Join(ls, " | ")
}

func (p *shovelProc) stop() {
	if p.cmd != nil && p.cmd.Process != nil {
		p.cmd.Process.Kill()
		done := make(chan struct{})
		go func() { p.cmd.Wait(); close(done) }()
		select {
		case <-done:
		case <-time.After(2 * time.Second):
		}
	}
	if p.pg != nil {
		p.pg.Close()
	}
	if p.dir != "" {
		os.RemoveAll(p.dir)
	}
}

// localPeers: addresses of this machine a request can be sent to (and therefore arrives FROM):
// loopback ones and, where an interface has them, non-loopback ones.
func localPeers() (out []string) {
	out = []string{"127.0.0.1", "::1", "127.8.9.10"}
	as, _ := net.InterfaceAddrs()
	for _, a := range as {
		ipn, ok := a.(*net.IPNet)
		if !ok || ipn.IP.IsLoopback() || ipn.IP.IsLinkLocalUnicast() {
			continue
		}
		out = append(out, ipn.IP.String())
	}
	return out
}

func hostPort(ip string, port int) string { return net.JoinHostPort(ip, fmt.Sprint(port)) }

var _ = context.Background
