// Package props holds one runner per property: it drives the REAL shovel code (built from
// /repo's working tree with -tags verif) and emits cases for the Lean driver.
package props

import "verifharness/core"

var Registry = map[string]core.Runner{}

// Rules: how cases are generated and what makes one non-trivial / distinct (goes into evidence).
var Rules = map[string]string{}
