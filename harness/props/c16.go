package props

import (
	"bytes"
	"context"
	"errors"
	"fmt"
	"os"
	"os/exec"
	"path/filepath"
	"strings"
	"sync"
	"time"

	"github.com/indexsupply/shovel/dig"
	"github.com/indexsupply/shovel/eth"
	"github.com/indexsupply/shovel/jrpc2"
	"github.com/indexsupply/shovel/shovel/config"
	"github.com/indexsupply/shovel/wpg"
	"github.com/jackc/pgx/v5/pgconn"
	"github.com/jackc/pgx/v5/pgxpool"

	"verifharness/core"
	"verifharness/fakepg"
	"verifharness/simnode"
)

func init() {
	Registry["C16"] = runC16
	Rules["C16"] = "generated integration sets (log-indexing with only indexed inputs / with data inputs / with an array input, transaction- and trace-indexing; 1-3 integrations, shared or separate tables, columns in random order, user-supplied identity columns, pre-existing narrower tables): the REAL ValidateFix vs the model of AddRequiredFields/AddUniqueIndex (K); then Migrate on a fake PostgreSQL must succeed and contain every written column; the rows the REAL Integration.Insert emits for 3 simulated blocks are COPYed through pgx: the first COPY must succeed (the key separates all rows), the second must collide (23505); configurations lacking a column for a selected input / block field / notification column must be rejected. non-trivial = all; distinct by configuration"
}

var batchEvent = dig.Event{Name: "Batch", Type: "event", Inputs: []dig.Input{{Name: "ids", Type: "uint256[]", Column: "ev_id"}}}

// an event whose only non-indexed selected value is a component nested in an array of tuples
var fillsEvent = dig.Event{Name: "Fills", Type: "event", Inputs: []dig.Input{
	{Indexed: true, Name: "maker", Type: "address", Column: "ev_maker"},
	{Name: "fills", Type: "tuple[]", Components: []dig.Input{
		{Name: "id", Type: "uint256", Column: "ev_fill"},
		{Name: "who", Type: "address"},
	}},
}}

// selectedInputs: the selected inputs of an event, components of tuples included (computed here, not
// with the implementation's Event.Selected)
func selectedInputs(ins []dig.Input) []dig.Input {
	var out []dig.Input
	for _, in := range ins {
		if in.Column != "" {
			out = append(out, in)
		}
		out = append(out, selectedInputs(in.Components)...)
	}
	return out
}

func c16Chain(n int, salt uint64) *simnode.Chain {
	tsig := transferEvent.SignatureHash()
	bsig := batchEvent.SignatureHash()
	fsig := fillsEvent.SignatureHash()
	return simnode.NewChain(n, simnode.GenOpts{Salt: salt, MakeTx: func(salt, num, idx uint64, tx *simnode.Tx) {
		simnode.DefaultMakeTx(salt, num, idx, tx)
		if len(tx.Logs) > 1 {
			l := &tx.Logs[0]
			l.Topics = [][]byte{tsig, padAddr(simnode.Derive("from", salt, num, idx)[:20]), padAddr(simnode.Derive("to", salt, num, idx)[:20])}
			l.Data = simnode.Derive("val", salt, num, idx)
			b := &tx.Logs[1]
			b.Topics = [][]byte{bsig}
			var data []byte
			w := func(n uint64) []byte { x := make([]byte, 32); x[31] = byte(n); x[30] = byte(n >> 8); return x }
			data = append(data, w(32)...)
			data = append(data, w(3)...)
			data = append(data, w(7)...)
			data = append(data, w(7)...) // equal element values: only abi_idx tells the rows apart
			data = append(data, w(9)...)
			b.Data = data
			// a second Transfer in the same transaction (same from/to/value): only log_idx tells the rows apart
			extra := simnode.Log{Idx: tx.Logs[len(tx.Logs)-1].Idx + 100, Addr: l.Addr, Topics: l.Topics, Data: l.Data}
			tx.Logs = append(tx.Logs, extra)
			// Fills(maker, [(7, a), (7, b)]): two array elements with equal selected values: only abi_idx tells the rows apart
			var fd []byte
			fd = append(fd, w(32)...)
			fd = append(fd, w(2)...)
			fd = append(fd, w(7)...)
			fd = append(fd, padAddr(simnode.Derive("who1", salt, num, idx)[:20])...)
			fd = append(fd, w(7)...)
			fd = append(fd, padAddr(simnode.Derive("who2", salt, num, idx)[:20])...)
			tx.Logs = append(tx.Logs, simnode.Log{Idx: extra.Idx + 1, Addr: l.Addr, Topics: [][]byte{fsig, padAddr(simnode.Derive("maker", salt, num, idx)[:20])}, Data: fd})
		}
	}})
}

type c16Shape struct {
	name   string
	ev     *dig.Event
	evCols []wpg.Column
	fields []string
}

func c16Shapes() []c16Shape {
	idx := transferEvent
	idx.Inputs = append([]dig.Input{}, transferEvent.Inputs...)
	idx.Inputs[2].Column = "" // only indexed inputs selected
	return []c16Shape{
		{"log-indexed-only", &idx, []wpg.Column{{Name: "ev_from", Type: "bytea"}, {Name: "ev_to", Type: "bytea"}}, []string{"block_time"}},
		{"log-data", &transferEvent, transferCols, []string{"block_time", "log_addr"}},
		{"log-array", &batchEvent, []wpg.Column{{Name: "ev_id", Type: "numeric"}}, []string{"block_time"}},
		{"log-tuple-array", &fillsEvent, []wpg.Column{{Name: "ev_maker", Type: "bytea"}, {Name: "ev_fill", Type: "numeric"}}, []string{"block_time"}},
		{"tx", nil, nil, []string{"tx_hash", "tx_input", "block_time"}},
		{"trace", nil, nil, []string{"trace_action_from", "trace_action_to", "tx_hash"}},
	}
}

// c16PrintSchema: the schema the PROGRAM prints (`shovel -config FILE -print-schema`, the route taken with
// -skip-migrate) applied statement by statement to an empty database: afterwards every column any integration of
// the file writes exists — tables shared by integrations with different columns included.
func c16PrintSchema(e *core.Env) {
	defer removeShovelBinary()
	ctx := context.Background()
	verdict := func() string {
		bin, err := buildShovelBinary(e)
		if err != nil {
			return "setup: " + err.Error()
		}
		igs := []config.Integration{transferIG("xfers", "token_events", []string{"block_time"}, nil), approvalIG("apprs", "token_events", []string{"block_time", "tx_input"}, nil),
			txIG("txs", "t_txs", []string{"tx_hash", "tx_input"})}
		var docs []string
		for i := range igs {
			docs = append(docs, igFileDoc(igs[i], "src1", 1))
		}
		dir, err := os.MkdirTemp("", "shovel-schema-")
		if err != nil {
			return "setup: " + err.Error()
		}
		defer os.RemoveAll(dir)
		cf := filepath.Join(dir, "config.json")
		os.WriteFile(cf, []byte(fmt.Sprintf(`{"pg_url": "postgres://unused", "eth_sources": [{"name": "src1", "chain_id": 7, "url": "http://127.0.0.1:1"}], "integrations": [%s]}`, strings.Join(docs, ","))), 0o600)
		cmd := exec.Command(bin, "-config", cf, "-print-schema")
		cmd.Dir = dir
		var stdout, stderr bytes.Buffer
		cmd.Stdout, cmd.Stderr = &stdout, &stderr
		if err := cmd.Run(); err != nil {
			return fmt.Sprintf("shovel -print-schema failed: %v: %s", err, lastLines(stderr.String(), 10))
		}
		pg := fakepg.New()
		url, _ := pg.Start()
		defer pg.Close()
		pool, err := pgxpool.New(ctx, url)
		if err != nil {
			return "setup: " + err.Error()
		}
		defer func() { go pool.Close() }()
		n := 0
		for _, stmt := range strings.Split(stdout.String(), ";") {
			if strings.TrimSpace(stmt) == "" {
				continue
			}
			if strings.Contains(stmt, "shovel.") || strings.Contains(strings.ToLower(stmt), "create schema") {
				continue // the program's own bookkeeping tables: not what this check is about
			}
			n++
			if _, err := pool.Exec(ctx, stmt); err != nil {
				return fmt.Sprintf("a printed statement is refused: %v: %s", err, trunc2(stmt))
			}
		}
		if n == 0 {
			return "shovel -print-schema printed no statement for the integrations' tables"
		}
		root := config.Root{Integrations: igs}
		if err := config.ValidateFix(&root); err != nil {
			return "setup: " + err.Error()
		}
		for _, ig := range root.Integrations {
			have := map[string]bool{}
			for _, c := range pg.Columns(ig.Table.Name) {
				have[c.Name] = true
			}
			for _, c := range ig.Table.Columns {
				if !have[c.Name] {
					return fmt.Sprintf("integration %s writes column %q; the table %q built from the printed schema has no such column", ig.Name, c.Name, ig.Table.Name)
				}
			}
		}
		return "ok"
	}()
	e.Add(core.Case{Impl: verdict, Spec: "ok", Key: "c16-print-schema", Nontrivial: true, Tags: []string{"binary", "print-schema"}})
}

func runC16(e *core.Env) error {
	c16PrintSchema(e)
	r := e.Rand
	shapes := c16Shapes()
	ctx := context.Background()
	chain := c16Chain(5, 2+e.Seed%5)
	node := simnode.NewNode(chain)
	defer node.Close()
	for s := 0; s < e.N(40, 600) && !e.OverBudget(); s++ {
		rr := r.Fork()
		nIG := 1 + rr.Intn(3)
		shared := nIG > 1 && rr.Bool()
		var igs []config.Integration
		var used []c16Shape
		class := ""
		for i := 0; i < nIG; i++ {
			sh := core.Pick(rr, shapes)
			if shared && i > 0 && rr.Chance(2, 3) {
				sh = used[0] // same shape: the supported way to share a table
			}
			used = append(used, sh)
			ig := config.Integration{Name: fmt.Sprintf("ig%d", i+1), Enabled: true}
			ig.Table.Name = fmt.Sprintf("t%d", i+1)
			if shared {
				ig.Table.Name = "shared"
			}
			if sh.ev != nil {
				ig.Event = *sh.ev
				ig.Table.Columns = append(ig.Table.Columns, sh.evCols...)
			}
			for _, f := range sh.fields {
				ig.Block = append(ig.Block, dig.BlockData{Name: f, Column: f})
				ig.Table.Columns = append(ig.Table.Columns, wpg.Column{Name: f, Type: fieldType(f)})
			}
			// user-supplied identity columns (with their block field)
			for _, f := range []string{"block_num", "tx_idx", "src_name"} {
				if rr.Chance(1, 4) {
					ig.Block = append(ig.Block, dig.BlockData{Name: f, Column: f})
					ig.Table.Columns = append(ig.Table.Columns, wpg.Column{Name: f, Type: fieldType(f)})
				}
			}
			// identity columns spelled out in the table only (e.g. to index them) while the block list
			// does not name them: the block field must still be added, or the rows go unstamped
			for _, f := range []string{"ig_name", "src_name", "block_num", "tx_idx"} {
				if rr.Chance(1, 6) {
					dup := false
					for _, c := range ig.Table.Columns {
						dup = dup || c.Name == f
					}
					if !dup {
						ig.Table.Columns = append(ig.Table.Columns, wpg.Column{Name: f, Type: fieldType(f)})
					}
				}
			}
			// an identity column in the table that the integration does not write
			if rr.Chance(1, 10) {
				ig.Table.Columns = append(ig.Table.Columns, wpg.Column{Name: "abi_idx", Type: "int2"})
				if sh.name != "log-data" && sh.name != "log-array" && sh.name != "log-tuple-array" {
					class = "C16.foreign_identity_column"
				}
			}
			// columns in any order
			for k := len(ig.Table.Columns) - 1; k > 0; k-- {
				j := rr.Intn(k + 1)
				ig.Table.Columns[k], ig.Table.Columns[j] = ig.Table.Columns[j], ig.Table.Columns[k]
			}
			igs = append(igs, ig)
		}
		if shared {
			for _, u := range used[1:] {
				if u.name != used[0].name {
					class = "C16.foreign_identity_column" // differently shaped integrations share the table
				}
			}
		}
		root := config.Root{Integrations: igs}
		detail := map[string]any{"shapes": shapeNames(used), "shared": shared}
		if err := config.ValidateFix(&root); err != nil {
			e.Add(core.Case{Impl: "config-rejected: " + err.Error(), Spec: "accepted", Key: fmt.Sprintf("c16 %d", s), Detail: detail})
			continue
		}
		// ---- K: AddRequiredFields / AddUniqueIndex vs model
		for i, ig := range root.Integrations {
			var sel, blk, cols, bn, cn []string
			for _, in := range selectedInputs(igs[i].Event.Inputs) {
				k := "n"
				if in.Indexed {
					k = "i"
				}
				sel = append(sel, k+":"+in.Column)
			}
			for _, b := range igs[i].Block {
				blk = append(blk, b.Name+":"+b.Column)
			}
			for _, c := range igs[i].Table.Columns {
				cols = append(cols, c.Name)
			}
			for _, b := range ig.Block {
				bn = append(bn, b.Name)
			}
			for _, c := range ig.Table.Columns {
				cn = append(cn, c.Name)
			}
			var us []string
			for _, u := range ig.Table.Unique {
				us = append(us, strings.Join(u, ","))
			}
			e.Add(core.Case{Op: fmt.Sprintf("c16fix %s %s %s", listTok(sel, ","), listTok(blk, ","), listTok(cols, ",")),
				Impl: strings.Join(bn, ",") + " | " + strings.Join(cn, ",") + " | " + strings.Join(us, ";") + " | true", Nontrivial: true, Tags: []string{"fix", "shape=" + used[i].name}})
		}
		// ---- O: migrate and double COPY on a fake PostgreSQL
		pg := fakepg.New()
		url, _ := pg.Start()
		cfg, _ := pgxpool.ParseConfig(url)
		cfg.MaxConns = 2
		pool, err := pgxpool.NewWithConfig(ctx, cfg)
		if err != nil {
			return err
		}
		verdict := "ok"
		narrower := rr.Chance(1, 3)
		if narrower { // the table exists already with fewer columns
			t := root.Integrations[0].Table
			keep := t.Columns[:1+rr.Intn(len(t.Columns))]
			var defs []string
			for _, c := range keep {
				defs = append(defs, c.Name+" "+c.Type)
			}
			if _, err := pool.Exec(ctx, fmt.Sprintf("create table %s(%s)", t.Name, strings.Join(defs, ", "))); err != nil {
				verdict = "setup: " + err.Error()
			}
		}
		conn, _ := pool.Acquire(ctx)
		if err := config.Migrate(ctx, conn, root); err != nil && verdict == "ok" {
			verdict = "migration failed: " + err.Error()
		}
		conn.Release()
		if verdict == "ok" {
			for _, ig := range root.Integrations {
				have := map[string]bool{}
				for _, c := range pg.Columns(ig.Table.Name) {
					have[c.Name] = true
				}
				d, err := dig.New(ig.Name, ig.Event, ig.Block, ig.Table, ig.Notification, ig.FilterAGG)
				if err != nil {
					verdict = "dig.New: " + err.Error()
					break
				}
				for _, c := range d.Columns {
					if !have[c] {
						verdict = fmt.Sprintf("column %q written by %s is missing from table %s", c, ig.Name, ig.Table.Name)
					}
				}
				flt := d.Filter()
				cl := jrpc2.New(node.URL() + "/nocache")
				blocks, err := cl.Get(ctx, node.URL()+"/nocache", &flt, 1, 3)
				if err != nil {
					verdict = "get: " + err.Error()
					break
				}
				ictx := e2eCtx("src1", 7)
				var mu sync.Mutex
				n1, err1 := d.Insert(ictx, &mu, pool, blocks)
				switch {
				case err1 != nil:
					verdict = fmt.Sprintf("first COPY of %s failed: %v", ig.Name, err1)
				case n1 == 0:
					verdict = fmt.Sprintf("%s emitted no rows", ig.Name)
				default:
					_, err2 := d.Insert(ictx, &mu, pool, blocks)
					var pe *pgconn.PgError
					if err2 == nil {
						verdict = fmt.Sprintf("re-insert of the same blocks by %s did not collide", ig.Name)
					} else if !errors.As(err2, &pe) || pe.Code != "23505" {
						verdict = fmt.Sprintf("re-insert by %s failed with %v, want a unique violation", ig.Name, err2)
					}
				}
				if verdict == "ok" && len(ig.Event.Inputs) > 0 {
					// a log of the declared event (right signature, right topic count) that carries NO data — any contract
					// can emit one: either it is refused, or its rows too collide on a re-insert (no NULL in the key)
					sig := d.Event.SignatureHash()
					var hostile []eth.Block
					for bi := range blocks {
						for ti := range blocks[bi].Txs {
							for _, l := range blocks[bi].Txs[ti].Logs {
								if len(hostile) == 0 && len(l.Topics) > 0 && bytes.Equal(l.Topics[0], sig) && len(l.Data) > 0 {
									hb := eth.Block{Header: blocks[bi].Header}
									hb.Header.Number += 1000 // a block of its own
									tx := blocks[bi].Txs[ti]
									tx.Logs = eth.Logs{eth.Log{Idx: l.Idx, Address: l.Address, Topics: l.Topics}}
									hb.Txs = eth.Txs{tx}
									hostile = []eth.Block{hb}
								}
							}
						}
					}
					if len(hostile) == 1 {
						if n, err := d.Insert(ictx, &mu, pool, hostile); err == nil && n > 0 {
							if _, err2 := d.Insert(ictx, &mu, pool, hostile); err2 == nil {
								verdict = fmt.Sprintf("%s accepted a log of its event without data and the re-insert of that block did not collide", ig.Name)
							}
						}
					}
				}
				if verdict != "ok" {
					break
				}
			}
		}
		done := make(chan struct{})
		go func() { pool.Close(); close(done) }()
		select {
		case <-done:
		case <-time.After(time.Second):
		}
		pg.Close()
		if class != "" && verdict != "ok" && !strings.Contains(verdict, "did not collide") {
			// the recorded finding has ONE symptom (a key column the integration does not write is NULL, so
			// the re-insert does not collide); any other failure of such a configuration is not that finding
			class = ""
		}
		if class == "" && shared && strings.HasPrefix(verdict, "first COPY of") && strings.Contains(verdict, "23505") {
			// second recorded finding: the unique index is named after the TABLE (u_<table>) and created with
			// "if not exists", so on a table shared by differently shaped integrations the first
			// integration's key is the only one: an integration emitting several rows per transaction
			// (trace actions, array elements, several logs) collides on a coarser key
			differ := false
			for _, u := range used[1:] {
				differ = differ || u.name != used[0].name
			}
			if differ {
				class = "C16.shared_table_first_key_wins"
			}
		}
		e.Add(core.Case{Impl: verdict, Spec: "ok", Class: class, Key: fmt.Sprintf("c16-db %d %d", s, e.Seed), Nontrivial: true,
			Tags: []string{"migrate+double-copy", fmt.Sprintf("shared=%v", shared), fmt.Sprintf("narrower=%v", narrower), "class=" + class}, Detail: detail})
	}
	// ---- rejects_missing
	for _, sh := range shapes {
		for k := 0; k < 3; k++ {
			ig := config.Integration{Name: "ig1", Enabled: true}
			ig.Table.Name = "t1"
			if sh.ev != nil {
				ig.Event = *sh.ev
				ig.Table.Columns = append(ig.Table.Columns, sh.evCols...)
			}
			for _, f := range sh.fields {
				ig.Block = append(ig.Block, dig.BlockData{Name: f, Column: f})
				ig.Table.Columns = append(ig.Table.Columns, wpg.Column{Name: f, Type: fieldType(f)})
			}
			what := ""
			switch k {
			case 0: // drop the column of a block field
				drop := ig.Block[0].Column
				ig.Table.Columns = dropCol(ig.Table.Columns, drop)
				what = "block field " + drop
			case 1:
				if sh.ev == nil {
					continue
				}
				drop := sh.evCols[0].Name
				ig.Table.Columns = dropCol(ig.Table.Columns, drop)
				what = "selected input " + drop
			case 2:
				ig.Notification.Columns = []string{"nonexistent_col"}
				what = "notification column"
			}
			root := config.Root{Integrations: []config.Integration{ig}}
			v := "rejected"
			if config.ValidateFix(&root) == nil {
				v = "accepted although there is no column for " + what
			}
			e.Add(core.Case{Impl: v, Spec: "rejected", Key: fmt.Sprintf("c16-missing %s %d", sh.name, k), Nontrivial: true, Tags: []string{"rejects-missing"}})
		}
	}
	return nil
}

func dropCol(cs []wpg.Column, name string) []wpg.Column {
	var out []wpg.Column
	for _, c := range cs {
		if c.Name != name {
			out = append(out, c)
		}
	}
	return out
}

func shapeNames(xs []c16Shape) []string {
	var out []string
	for _, x := range xs {
		out = append(out, x.name)
	}
	return out
}
