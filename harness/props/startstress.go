package props

import (
	"fmt"
	"strings"
	"time"

	"github.com/indexsupply/shovel/shovel/config"

	"verifharness/core"
	"verifharness/simnode"
)

// StartupStress starts the REAL shovel binary n times (eight integrations on one source: eight tasks
// make their first requests at the same moment) and reports how often the process died while starting.
// Used to reproduce, and to check the repair of, the start-up crash recorded in known_findings.json.
func StartupStress(n int) (crashed int, sample string) {
	e := &core.Env{Rand: core.NewRand(1), VerifDir: "/verif", RepoDir: "/repo"}
	defer removeShovelBinary()
	node := simnode.NewNode(transferChain(4, 5))
	defer node.Close()
	var igDocs []string
	igs := []config.Integration{transferIG("xfer", "t1", []string{"block_time"}, nil), approvalIG("appr", "t2", []string{"block_time", "tx_input"}, nil),
		traceIG("trc", "t3"), txIG("txs", "t4", []string{"tx_hash", "tx_input", "block_time"})}
	for i := range igs {
		igs[i].Enabled = true
		igDocs = append(igDocs, igFileDoc(igs[i], "src1", 2))
	}
	_ = config.Root{}
	for i := 0; i < n; i++ {
		doc := func(pgurl string) string {
			return fmt.Sprintf(`{"pg_url": %q, "dashboard": {"root_password": "x"}, "eth_sources": [{"name": "src1", "chain_id": 7, "url": %q, "poll_duration": "40ms", "batch_size": 1, "concurrency": 3}], "integrations": [%s]}`,
				pgurl, node.URL(), strings.Join(igDocs, ","))
		}
		p, err := startShovel(e, doc)
		if err != nil {
			if strings.Contains(err.Error(), "panic") || strings.Contains(err.Error(), "SIGSEGV") {
				crashed++
				if sample == "" {
					sample = err.Error()
				}
			}
			continue
		}
		time.Sleep(150 * time.Millisecond)
		out := p.out.String()
		if strings.Contains(out, "panic:") {
			crashed++
			if sample == "" {
				sample = lastLines(out, 30)
			}
		}
		p.stop()
	}
	return crashed, sample
}
