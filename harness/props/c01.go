package props

import (
	"encoding/json"
	"fmt"
	"github.com/indexsupply/shovel/dig"
	"sort"
	"strings"
	"sync"
	"time"

	"github.com/indexsupply/shovel/eth"
	"github.com/indexsupply/shovel/jrpc2"
	"github.com/indexsupply/shovel/shovel/config"

	"verifharness/core"
	"verifharness/fakepg"
	"verifharness/simnode"
)

func init() {
	Registry["C01"] = runC01
	Rules["C01"] = "histories of the REAL Task.Converge on a fake PostgreSQL + simulated node: all 81 pairs batch_size x concurrency in 1..9 (incl. batch < concurrency and non-divisible pairs), start at a configured block or at the head, Transfer integration (matching + decoy logs) with headers/blocks/receipts plans, random interleaving of head growth with steps, transient source faults and database faults (error reply / connection drop / process death) that eventually stop; after every operation the committed database (positions + rows) and the outcome class are compared with the Lean World model (K) and the table with the projection of the canonical chain over (start, position] through the Lean Spec (O). non-trivial = history with at least one successful step; distinct by history"
}

// truth: rows the declaration derives from canonical block b (through a fresh uncached client and the real row builder)
func (w *world) truthRows(t *wTask) []string {
	if rows, ok := w.indepRows(t); ok {
		w.tags["truth=independent-of-dig"]++
		return rows
	}
	w.tags["truth=real-row-builder"]++
	var out []string
	var chain *simnode.Chain
	w.node.With(func(c *simnode.Chain) { chain = c.Clone() })
	flt := t.side.Filter()
	truth := jrpc2.New(w.node.URL() + "/nocache") // a fresh uncached client: the source's own answer
	for n := 1; n < len(chain.Blocks); n++ {
		bs, err := truth.Get(w.ctx, w.node.URL()+"/nocache", &flt, uint64(n), 1)
		if err != nil || len(bs) != 1 {
			out = append(out, fmt.Sprintf("%d:!fetch", n))
			continue
		}
		t.sideMu.Lock()
		fc := &fakeConn{}
		var mu sync.Mutex
		cp := eth.Block{Header: bs[0].Header, Txs: bs[0].Txs}
		_, ierr := t.side.Insert(w.taskCtx(t), &mu, fc, []eth.Block{cp})
		t.sideMu.Unlock()
		if ierr != nil || len(fc.copies) == 0 {
			continue
		}
		for _, m := range copyRowMaps(fc.copies[0]) {
			_, p := t.rowDigest(m)
			out = append(out, fmt.Sprintf("%d:%s", n, p))
		}
	}
	return out
}

func (w *world) taskRows(t *wTask) (rows []string, top uint64, has bool, first uint64) {
	first = ^uint64(0)
	for _, r := range w.pg.Rows("shovel.task_updates") {
		if r["src_name"] == t.src && r["ig_name"] == t.ig {
			var n uint64
			fmt.Sscan(string(r["num"].(fakepg.Num)), &n)
			top = max(top, n)
			first = min(first, n)
			has = true
		}
	}
	for _, r := range w.pg.Rows(t.table) {
		if r["src_name"] == t.src && r["ig_name"] == t.ig {
			vals := map[string]string{}
			for c, v := range r {
				vals[c] = renderPG(v)
			}
			_, p := t.rowDigest(vals)
			var bn uint64
			fmt.Sscan(string(r["block_num"].(fakepg.Num)), &bn)
			rows = append(rows, fmt.Sprintf("%d:%s", bn, p))
		}
	}
	return
}

// projOracle: the table of t is the projection of the canonical chain over (s, position]
func (w *world) projOracle(t *wTask, s uint64) string {
	rows, top, has, _ := w.taskRows(t)
	if !has {
		top = s
	}
	return fmt.Sprintf("w-proj %d %d %s %s", s, top, listTok(rows, ","), listTok(w.truthRows(t), ","))
}

func runC01(e *core.Env) error {
	r := e.Rand
	// the row builder over whole batches (Model/Insert, insert_exact / insert_batch_flat): "each matching log,
	// transaction or trace yields its rows once and nothing else is present"
	if err := runInsertBatches(e); err != nil {
		return err
	}
	type pair struct{ b, c int }
	var pairs []pair
	for b := 1; b <= 9; b++ {
		for c := 1; c <= 9; c++ {
			pairs = append(pairs, pair{b, c})
		}
	}
	reps := e.N(1, 6)
	plans := [][]string{{"block_time"}, {"block_time", "tx_input"}, {"block_time", "tx_status"}, {"block_hash", "block_time", "tx_gas_price", "log_addr"}}
	for rep := 0; rep < reps; rep++ {
		for _, pr := range pairs {
			if e.OverBudget() {
				break
			}
			rr := r.Fork()
			clen := 2 + rr.Intn(4)
			if rr.Bool() {
				clen += pr.b // long enough for full batches (every slice of a loaded batch must be written)
			}
			chain := transferChain(clen, uint64(1+rr.Intn(1000)))
			w, err := newWorld(e, chain)
			if err != nil {
				return err
			}
			useCache := rr.Chance(1, 3)
			var ig1 config.Integration
			switch rr.Intn(6) {
			case 0:
				ig1 = traceIG("ig1", "t1") // blocks + trace_block
			case 1:
				ig1 = transferIG("ig1", "t1", nil, nil) // logs only: the fetched blocks carry no parent hashes
			case 2:
				ig1 = txIG("ig1", "t1", []string{"tx_hash", "tx_input", "block_time"})
			default:
				ig1 = transferIG("ig1", "t1", core.Pick(rr, plans), nil)
			}
			root := config.Root{Integrations: []config.Integration{ig1}}
			if err := w.setupRoot(&root); err != nil {
				w.close()
				return err
			}
			start := uint64(1)
			switch rr.Intn(4) {
			case 0:
				start = 0 // begin at the head
			case 1:
				start = uint64(1 + rr.Intn(3))
			}
			if useCache && start > 0 {
				// the client's caches ON: a step that fails after loading leaves its blocks in the segment
				// cache, and the retry attaches logs / receipts / traces to those same blocks again.
				// (with a configured start only: a cached head may lag, which moves a head-mode start)
				w.client = jrpc2.New(w.node.URL()+"/a", w.node.URL()+"/b").WithMaxReads(2 + rr.Intn(3)).WithPollDuration(time.Hour) // two URLs: the client rotates
				w.tags["caching-client"]++
			} else {
				useCache = false
			}
			t, err := w.addTask("t1", root.Integrations[0], "src1", start, 0, pr.b, pr.c)
			if err != nil {
				w.close()
				return err
			}
			var oracles []string
			okSteps := 0
			s := uint64(0) // initial position; fixed by the first successful read of the start
			sKnown := false
			nOps := 6 + rr.Intn(8)
			quietRun := 0
			for i := 0; i < nOps+40 && !w.dead; i++ {
				settle := i >= nOps // faults and growth stop; run to quiescence
				op := rr.Intn(10)
				if settle {
					op = 9
				}
				if !settle && rr.Chance(1, 12) {
					w.prune(1 + rr.Intn(3)) // old positions are deleted while the task is indexing
					continue
				}
				switch {
				case op < 3:
					w.node.With(func(c *simnode.Chain) {
						c.Grow(1+rr.Intn(3), simnode.GenOpts{Salt: chain.Blocks[0].Time, MakeTx: transferMakeTx})
					})
					w.tags["grow"]++
					continue
				default:
					var head uint64
					w.node.With(func(c *simnode.Chain) { head = c.Head().Num })
					candS := head - 1 // start at the head: the first successful step fixes the initial position
					if start > 0 {
						candS = start - 1
					}
					f := noFault
					switch {
					case op < 5:
						f = wFault{dbIndex: rr.Intn(12), kind: core.Pick(rr, []fakepg.Fault{fakepg.ErrorReply, fakepg.DropConn, fakepg.DropAll})}
					case op < 6:
						f = wFault{dbIndex: -1, srcCall: 1 + rr.Intn(5)}
					}
					out := w.step(t, f)
					if strings.HasPrefix(out, "ok") {
						okSteps++
						if !sKnown {
							s, sKnown = candS, true
						}
					}
					if settle && (out == "nothing-new" || out == "ahead") {
						quietRun++
						// (a cached head may lag for max-reads reads: several quiet steps in a row)
						if !useCache || quietRun >= 6 {
							i = nOps + 40
						}
					} else {
						quietRun = 0
					}
				}
				if sKnown {
					oracles = append(oracles, w.projOracle(t, s))
				}
			}
			// quiescence: position reached the head and the table is the projection of (s, head]
			var head uint64
			w.node.With(func(c *simnode.Chain) { head = c.Head().Num })
			_, top, has, _ := w.taskRows(t)
			final := "converged"
			wantStart := start
			if start == 0 {
				wantStart = head // started at the head at the latest
			}
			switch {
			case w.dead:
				final = "a step did not terminate"
			case w.tags["outcome:panic"] > 0:
				final = "a step panicked"
			case head >= wantStart && wantStart > 0 && (!has || top != head):
				final = fmt.Sprintf("stuck at %d of %d", top, head)
			}
			op, impl := w.caseOp()
			tags := []string{fmt.Sprintf("batch=%d", pr.b), fmt.Sprintf("conc=%d", pr.c), fmt.Sprintf("batch<conc=%v", pr.b < pr.c), fmt.Sprintf("start=%d", min(start, 2))}
			for k, v := range w.tags {
				for j := 0; j < v; j++ {
					tags = append(tags, k)
				}
			}
			e.Add(core.Case{Op: op, Impl: impl, Oracles: oracles, Nontrivial: okSteps > 0, Tags: tags,
				Key: fmt.Sprintf("c01 %d %d %d %d", pr.b, pr.c, rep, e.Seed), Detail: map[string]any{"batch": pr.b, "conc": pr.c, "start": start}})
			e.Add(core.Case{Impl: final, Spec: "converged", Key: fmt.Sprintf("c01-final %d %d %d", pr.b, pr.c, rep), Tags: []string{"quiescence"},
				Detail: map[string]any{"batch": pr.b, "conc": pr.c, "start": start, "history": strings.Split(op, "\n")}})
			w.close()
		}
	}
	// ---- configurations with SEVERAL integrations on one source (one shared caching client): a Transfer
	// and an Approval declaration (two events of the same transactions, the Approval log has the higher
	// index) and a trace declaration, same ranges, every stepping order; each table is the projection
	for rep := 0; rep < e.N(6, 18) && !e.OverBudget(); rep++ {
		rr := r.Fork()
		chain := transferChain(6+rr.Intn(4), uint64(1+rr.Intn(1000)))
		w, err := newWorld(e, chain)
		if err != nil {
			return err
		}
		w.client = jrpc2.New(w.node.URL()).WithMaxReads(8).WithPollDuration(time.Hour)
		fields := core.Pick(rr, [][]string{{"block_time"}, {"block_time", "tx_input"}})
		root := config.Root{Integrations: []config.Integration{approvalIG("appr", "t1", fields, nil), transferIG("xfer", "t2", fields, nil), traceIG("trc", "t3")}}
		if err := w.setupRoot(&root); err != nil {
			w.close()
			return err
		}
		batch := 1 + rr.Intn(4)
		var ts []*wTask
		for i, id := range []string{"appr", "xfer", "trc"} {
			t, err := w.addTask(id, root.Integrations[i], "src1", 1, 0, batch, 1+rr.Intn(2))
			if err != nil {
				w.close()
				return err
			}
			ts = append(ts, t)
		}
		perms := [][]int{{0, 1, 2}, {1, 0, 2}, {2, 1, 0}, {0, 2, 1}, {1, 2, 0}, {2, 0, 1}}
		order := perms[rep%len(perms)]
		okSteps := 0
		for round := 0; round < 14 && !w.dead; round++ {
			if round == 5 {
				w.grow(2)
			}
			for _, k := range order {
				if strings.HasPrefix(w.step(ts[k], noFault), "ok") {
					okSteps++
				}
			}
		}
		var oracles []string
		for _, t := range ts {
			oracles = append(oracles, w.projOracle(t, 0))
		}
		op, impl := w.caseOp()
		e.Add(core.Case{Op: op, Impl: impl, Oracles: oracles, Nontrivial: okSteps > 0, Key: fmt.Sprintf("c01-several %d %d", rep, e.Seed),
			Tags: []string{"several-integrations-one-cache", fmt.Sprintf("order=%v", order)}, Detail: map[string]any{"batch": batch, "history": strings.Split(op, "\n")}})
		w.close()
	}
	return c01Binary(e)
}

// c01Binary: the whole program. The REAL shovel binary (built from the working tree) reads a
// configuration FILE with four declarations (two events of the same transactions, transactions,
// traces), migrates the fake PostgreSQL itself, and indexes the simulated node through its own
// manager, client, caches and poller - while the chain grows, is reorganised, and the process is killed
// and started again. At every quiescent point each table is the projection of the canonical chain.
func c01Binary(e *core.Env) error {
	defer removeShovelBinary()
	r := e.Rand
	for rep := 0; rep < e.N(2, 4) && !e.OverBudget(); rep++ {
		rr := r.Fork()
		chain := transferChain(6+rr.Intn(3), uint64(1+rr.Intn(1000)))
		w, err := newWorld(e, chain)
		if err != nil {
			return err
		}
		start := uint64(1 + rr.Intn(2))
		batch, conc := 1+rr.Intn(4), 1+rr.Intn(3)
		igs := []config.Integration{transferIG("xfer", "t1", []string{"block_time"}, nil), approvalIG("appr", "t2", []string{"block_time", "tx_input"}, nil),
			traceIG("trc", "t3"), txIG("txs", "t4", []string{"tx_hash", "tx_input", "block_time"})}
		var igDocs []string
		for i := range igs {
			igs[i].Enabled = true
			igDocs = append(igDocs, igFileDoc(igs[i], "src1", start))
		}
		if rep%2 == 1 {
			w.node.SetLag("/u2", 2) // one of the three backends is two blocks behind the others
		}
		doc := func(pgurl string) string {
			// every other repetition: the source is declared with several URLs (the client rotates through them) and
			// learns the head over the websocket subscription instead of polling
			if rep%2 == 1 {
				return fmt.Sprintf(`{"pg_url": %q, "dashboard": {"root_password": "x"}, "eth_sources": [{"name": "src1", "chain_id": 7, "url": %q, "urls": [%q, %q], "ws_url": %q, "poll_duration": "40ms", "batch_size": %d, "concurrency": %d}], "integrations": [%s]}`,
					pgurl, w.node.URL()+"/u0", w.node.URL()+"/u1", w.node.URL()+"/u2", w.node.WSURL(), batch, conc, strings.Join(igDocs, ","))
			}
			return fmt.Sprintf(`{"pg_url": %q, "dashboard": {"root_password": "x"}, "eth_sources": [{"name": "src1", "chain_id": 7, "url": %q, "poll_duration": "40ms", "batch_size": %d, "concurrency": %d}], "integrations": [%s]}`,
				pgurl, w.node.URL(), batch, conc, strings.Join(igDocs, ","))
		}
		// the harness' own view of the declarations (for the oracles): validated the way the file is
		root := config.Root{Integrations: igs}
		if err := config.ValidateFix(&root); err != nil {
			w.close()
			return err
		}
		var ts []*wTask
		for i := range root.Integrations {
			ci := root.Integrations[i]
			ts = append(ts, viewTask(ci, start, batch, conc))
		}
		var history []string
		var oracles []string
		verdict := "ok"
		settle := func(what string) {
			history = append(history, what)
			if rep%2 == 1 { // the websocket variant: the node pushes its new head to whoever subscribed
				w.node.AnnounceHead()
				history = append(history, fmt.Sprintf("(ws subscribers=%d)", w.node.Subscribers()))
			}
			deadline := time.Now().Add(25 * time.Second)
			for time.Now().Before(deadline) {
				done := true
				for _, t := range ts {
					if _, top, has, _ := w.taskRows(t); !has || top != w.head() {
						done = false
					}
				}
				if done {
					break
				}
				time.Sleep(30 * time.Millisecond)
			}
			time.Sleep(120 * time.Millisecond) // (a step in flight commits or not; then read)
			for _, t := range ts {
				_, top, has, _ := w.taskRows(t)
				if (!has || top != w.head()) && verdict == "ok" {
					verdict = fmt.Sprintf("after %q: integration %s is at %d (recorded=%v), the source's head is %d", what, t.ig, top, has, w.head())
				}
				oracles = append(oracles, w.projOracle(t, start-1))
			}
		}
		p, err := startShovelOn(e, w.url, doc)
		if err != nil {
			e.Add(core.Case{Impl: "the shovel binary did not start: " + err.Error(), Spec: "started", Key: fmt.Sprintf("c01-bin-start %d", rep), Tags: []string{"binary"}})
			w.close()
			continue
		}
		settle("start")
		w.grow(2 + rr.Intn(3))
		settle("grow")
		w.reorg(1+rr.Intn(2), 2+rr.Intn(2))
		w.grow(1)
		settle("reorg+grow")
		p.stop() // the process is killed (wherever its tasks happen to be)
		w.grow(2)
		p, err = startShovelOn(e, w.url, doc)
		if err != nil {
			verdict = "the shovel binary did not start again: " + err.Error()
		} else {
			settle("kill, grow, start again")
			out := p.out.String()
			p.stop()
			if strings.Contains(out, "panic:") && verdict == "ok" {
				verdict = "the process panicked: " + lastLines(out, 40)
			}
		}
		variant := "http-poll,one-url"
		if rep%2 == 1 {
			variant = "ws-subscription,three-urls,one-lagging"
			if strings.Contains(strings.Join(history, " "), "subscribers=0) ") && !strings.Contains(strings.Join(history, " "), "subscribers=1)") && verdict == "ok" {
				verdict = "the source declares a ws_url and no websocket subscription was ever opened: " + strings.Join(history, " ")
			}
		}
		class := ""
		if verdict != "ok" && gojsonCrash(verdict) {
			class = "C01.gojson_decoder_crash"
		}
		e.Add(core.Case{Impl: verdict, Spec: "ok", Oracles: oracles, Nontrivial: true, Class: class, Key: fmt.Sprintf("c01-binary %d %d", rep, e.Seed),
			Tags: []string{"binary", "whole-program", variant, fmt.Sprintf("batch=%d", batch), fmt.Sprintf("conc=%d", conc)}, Detail: map[string]any{"history": history, "batch": batch, "conc": conc, "start": start}})
		w.close()
	}
	return nil
}

// viewTask: the harness' description of a (source src1, integration) pair that runs in ANOTHER process:
// enough for reading its positions and rows from the fake PostgreSQL and for the projection oracles
func viewTask(ci config.Integration, start uint64, batch, conc int) *wTask {
	t := &wTask{id: ci.Name, src: "src1", ig: ci.Name, table: ci.Table.Name, start: start, batch: batch, conc: conc, cig: ci}
	for _, c := range ci.Table.Columns {
		t.cols = append(t.cols, c.Name)
	}
	sort.Strings(t.cols)
	if len(ci.Table.Unique) > 0 {
		t.uniq = ci.Table.Unique[0]
	}
	if side, err := dig.New(ci.Name, ci.Event, ci.Block, ci.Table, ci.Notification, ci.FilterAGG); err == nil {
		t.side = side
	}
	return t
}

// igFileDoc: a declaration as it is written in a configuration file / submitted to the dashboard
func igFileDoc(ig config.Integration, src string, start uint64) string {
	ig.Enabled = true
	j, _ := json.Marshal(ig)
	var m map[string]any
	json.Unmarshal(j, &m)
	m["sources"] = []map[string]any{{"name": src, "start": start}}
	delete(m, "Dependencies")
	j, _ = json.Marshal(m)
	return string(j)
}

func transferMakeTx(salt, num, idx uint64, tx *simnode.Tx) {
	sig := transferEvent.SignatureHash()
	simnode.DefaultMakeTx(salt, num, idx, tx)
	if idx >= 2 {
		tx.Logs = nil // a transaction without events: its receipt still carries status, gas and contract address
		return
	}
	if len(tx.Logs) > 0 {
		l := &tx.Logs[0]
		l.Topics = [][]byte{sig, padAddr(simnode.Derive("from", salt, num, idx)[:20]), padAddr(simnode.Derive("to", salt, num, idx)[:20])}
		l.Data = simnode.Derive("val", salt, num, idx)
	}
	if len(tx.Logs) > 1 {
		// the second log of every transaction is an ERC-20 Approval: an integration on it shares the
		// transaction (and the cached block) with the Transfer integrations but has a different filter
		l := &tx.Logs[1]
		l.Topics = [][]byte{approvalEvent.SignatureHash(), padAddr(simnode.Derive("owner", salt, num, idx)[:20]), padAddr(simnode.Derive("spender", salt, num, idx)[:20])}
		l.Data = simnode.Derive("aval", salt, num, idx)
	}
	if idx%2 == 1 && len(tx.Logs) > 1 {
		t0 := tx.Logs[0]
		// a SECOND Transfer in the same transaction (two matching logs of one filter in one transaction)
		tx.Logs = append(tx.Logs, simnode.Log{Idx: 100 + 2*idx, Addr: t0.Addr,
			Topics: [][]byte{t0.Topics[0], padAddr(simnode.Derive("from2", salt, num, idx)[:20]), t0.Topics[2]}, Data: simnode.Derive("val2", salt, num, idx)})
		// a DECOY: same signature hash, one more indexed topic, no data (an ERC-721 Transfer seen by an
		// ERC-20 declaration): must produce no row
		tx.Logs = append(tx.Logs, simnode.Log{Idx: 101 + 2*idx, Addr: simnode.Derive("nft", salt, num, idx)[:20],
			Topics: [][]byte{t0.Topics[0], t0.Topics[1], t0.Topics[2], simnode.Derive("tokenid", salt, num, idx)}})
	}
}
