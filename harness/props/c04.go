package props

import (
	"bytes"
	"context"
	"encoding/json"
	"fmt"
	"github.com/indexsupply/shovel/wos"
	"math/big"
	"os"
	"strings"
	"time"

	"github.com/indexsupply/shovel/dig"
	"github.com/indexsupply/shovel/jrpc2"
	"github.com/indexsupply/shovel/shovel"
	"github.com/indexsupply/shovel/shovel/config"
	"github.com/indexsupply/shovel/wpg"
	"github.com/jackc/pgx/v5/pgxpool"

	"verifharness/core"
	"verifharness/fakepg"
	"verifharness/simnode"
)

func init() {
	Registry["C04"] = runC04
	Registry["C05"] = runC05
	Registry["C06"] = runC06
	Rules["C04"] = "2-4 (source, integration) pairs: shared or separate destination tables, one or two sources, one shared caching client or separate clients, same event with different address filters or field sets; random interleavings of their steps with growth, reorgs, faults, restarts (pool and tasks rebuilt) and cursor pruning; after EVERY step of one pair the positions and rows of all other pairs must be byte-identical to before (O, Lean `w-others` digest of the implementation state), every row must carry the source and integration that produced it, and the whole database is compared with the Lean World model (K). non-trivial = step that changed the database; distinct by history"
	Rules["C05"] = "dependency graphs from filter references (one or two referenced integrations, on a block field or an event input, chains A<-B<-C), all relative schedules incl. referenced integrations that have not started; after every step of a dependent: its position never exceeds the smallest position of its references and it writes nothing while a reference has no position (O), and the database is compared with the Lean World model incl. the reference lookups made inside the inserting transaction (K). non-trivial = step of a dependent task; distinct by history"
	Rules["C06"] = "(start, stop) grid relative to the head (before, at, after), batch sizes straddling stop, with and without a prior recorded position, restarts between steps, growth: every written position and row lies in [start, stop] (Lean Spec `w-within`), completion is reported exactly when the stop block is recorded and nothing is written afterwards, a recorded position always wins over the configured start (K against the Lean World model, O). non-trivial = history that reaches stop or resumes; distinct by (start, stop, batch, head)"
}

// othersDigest: digest of everything not belonging to task t (implementation side)
func (w *world) othersDigest(t *wTask) string {
	full := w.digest()
	// filter the digest entries
	parts := strings.SplitN(full, "] R[", 2)
	cs := strings.Split(strings.TrimPrefix(parts[0], "C["), ",")
	rs := strings.Split(strings.TrimSuffix(parts[1], "]"), ",")
	var c2, r2 []string
	for _, c := range cs {
		if c != "" && !strings.HasPrefix(c, t.src+"/"+t.ig+"/") {
			c2 = append(c2, c)
		}
	}
	for _, r := range rs {
		if r != "" && !strings.HasPrefix(r, t.table+"/"+t.src+"/"+t.ig+"/") {
			r2 = append(r2, r)
		}
	}
	return "C[" + strings.Join(c2, ",") + "] R[" + strings.Join(r2, ",") + "]"
}

// taskDigest: digest of what belongs to task t only
func (w *world) taskDigest(t *wTask) string {
	full := w.digest()
	parts := strings.SplitN(full, "] R[", 2)
	cs := strings.Split(strings.TrimPrefix(parts[0], "C["), ",")
	rs := strings.Split(strings.TrimSuffix(parts[1], "]"), ",")
	var c2, r2 []string
	for _, c := range cs {
		if strings.HasPrefix(c, t.src+"/"+t.ig+"/") {
			c2 = append(c2, c)
		}
	}
	for _, r := range rs {
		if strings.HasPrefix(r, t.table+"/"+t.src+"/"+t.ig+"/") {
			r2 = append(r2, r)
		}
	}
	return "C[" + strings.Join(c2, ",") + "] R[" + strings.Join(r2, ",") + "]"
}

func runC04(e *core.Env) error {
	{
		// integrations of one source share one caching client: each gets exactly its own rows whatever the
		// others fetched before (deterministic sequences, shared with C11-C14)
		chain := transferChain(5, 3+e.Seed%5)
		node := simnode.NewNode(chain)
		e2eSharedClient(e, node, chain)
		node.Close()
		// the program's own loop: two declarations, each on two sources (tasks built by loadTasks): every row
		// carries the stamp of the pair whose chain it comes from
		for s := 0; s < e.N(2, 6); s++ {
			out := twoSourceManager(context.Background(), e.Rand.Fork(), 40+s)
			e.Add(core.Case{Impl: out, Spec: "ok", Key: fmt.Sprintf("c04-two-sources-manager %d", s), Nontrivial: true, Tags: []string{"stamps-through-the-manager"}})
		}
	}
	r := e.Rand
	nHist := e.N(30, 400)
	for h := 0; h < nHist && !e.OverBudget(); h++ {
		rr := r.Fork()
		chain := transferChain(4+rr.Intn(4), uint64(1+rr.Intn(1000)))
		w, err := newWorld(e, chain)
		if err != nil {
			return err
		}
		// history 0 is fixed: two block-level integrations on ONE caching client, the first stores tx_value and has no
		// use for the call data, the second stores tx_input — of the very block objects the first one was handed
		sharp := h == 0
		if rr.Bool() || sharp {
			w.client = jrpc2.New(w.node.URL()+"/a", w.node.URL()+"/b", w.node.URL()+"/c").WithMaxReads(2 + rr.Intn(3)).WithPollDuration(time.Hour) // shared CACHING client, three URLs
			w.tags["shared-cache"]++
		}
		nIG := 2 + rr.Intn(2)
		sharedTable := rr.Bool()
		if sharp {
			nIG, sharedTable = 2, false
		}
		nApproval, stampCols := 0, 0
		var igs []config.Integration
		for i := 0; i < nIG; i++ {
			table := fmt.Sprintf("t%d", i+1)
			if sharedTable {
				table = "shared"
			}
			fields := core.Pick(rr, [][]string{{"block_time"}, {"block_time", "log_addr"}, {"block_time", "tx_input"}, {"block_time", "tx_status"}, {"block_time", "tx_value"}})
			if sharp {
				fields = [][]string{{"block_time", "tx_value"}, {"block_time", "tx_input"}}[i]
				igs = append(igs, transferIG(fmt.Sprintf("ig%d", i+1), table, fields, nil))
				continue
			}
			if !sharedTable && rr.Chance(1, 6) {
				// trace-indexing: blocks + trace_block; two of these on one caching client re-attach traces
				igs = append(igs, traceIG(fmt.Sprintf("ig%d", i+1), table))
				continue
			}
			if !sharedTable && rr.Chance(2, 5) {
				// a different event of the same transactions: another eth_getLogs filter on the same cached blocks
				igs = append(igs, approvalIG(fmt.Sprintf("ig%d", i+1), table, fields, nil))
				nApproval++
				continue
			}
			igs = append(igs, transferIG(fmt.Sprintf("ig%d", i+1), table, fields, func(ci *config.Integration) {
				if rr.Chance(1, 3) {
					// the table spells out the stamp columns itself; the block list does not name them
					ci.Table.Columns = append(ci.Table.Columns, wpg.Column{Name: "ig_name", Type: "text"}, wpg.Column{Name: "src_name", Type: "text"})
					stampCols++
				}
				if rr.Chance(1, 3) { // different address filter on the same event
					for j := range ci.Block {
						if ci.Block[j].Name == "log_addr" {
							ci.Block[j].Filter = dig.Filter{Op: "contains", Arg: []string{fmt.Sprintf("%x", chain.Blocks[1].Txs[0].Logs[0].Addr)}}
						}
					}
				}
			}))
		}
		root := config.Root{Integrations: igs}
		if err := w.setupRoot(&root); err != nil {
			w.close()
			return fmt.Errorf("c04 setup: %w", err)
		}
		var tasks []*wTask
		for i := range root.Integrations {
			srcs := []string{"src1"}
			if rr.Chance(1, 3) {
				srcs = []string{"src1", "src2"} // the same integration on two sources
			}
			for _, src := range srcs {
				t, err := w.addTask(fmt.Sprintf("t%d%s", i+1, src), root.Integrations[i], src, uint64(1+rr.Intn(2)), 0, 1+rr.Intn(4), 1+rr.Intn(3))
				if err != nil {
					w.close()
					return err
				}
				tasks = append(tasks, t)
			}
		}
		changed := 0
		for i := 0; i < 14+rr.Intn(10) && !w.dead; i++ {
			t := core.Pick(rr, tasks)
			switch op := rr.Intn(12); {
			case op < 2:
				w.grow(1 + rr.Intn(2))
			case op < 4:
				d := 1 + rr.Intn(3)
				if int(w.head())-d >= 1 {
					w.reorg(d, d+rr.Intn(2))
				}
			case op == 5 && i > 4:
				// PruneTask (main runs it every ten minutes): old positions go, but every pair keeps its
				// newest one — however far behind the other pairs of its source it is
				tops := map[string]uint64{}
				for _, o := range tasks {
					tops[o.id] = w.taskTop(o)
				}
				n := 1 + rr.Intn(2)
				w.prune(n)
				verdict := "ok"
				for _, o := range tasks {
					if got := w.taskTop(o); got != tops[o.id] {
						verdict = fmt.Sprintf("pruning to %d positions per pair moved the newest position of %s/%s from %d to %d", n, o.src, o.ig, tops[o.id], got)
					}
				}
				e.Add(core.Case{Impl: verdict, Spec: "ok", Key: fmt.Sprintf("c04-prune %d %d", h, i), Nontrivial: true, Tags: []string{"prune-keeps-every-pairs-newest-position"},
					Detail: map[string]any{"history": strings.Split(strings.Join(w.ops, "\n"), "\n")}})
			case op == 4:
				// restart: all in-memory state discarded
				w.newPool()
				for _, o := range w.tasks {
					w.buildTask(o)
				}
				w.tags["restart"]++
			default:
				before := w.othersDigest(t)
				full0 := w.digest()
				f := noFault
				if rr.Chance(1, 5) {
					f = wFault{dbIndex: rr.Intn(10), kind: core.Pick(rr, []fakepg.Fault{fakepg.ErrorReply, fakepg.DropConn})}
				}
				w.step(t, f)
				after := w.othersDigest(t)
				if w.digest() != full0 {
					changed++
				}
				e.Add(core.Case{Impl: after, Spec: before, Key: fmt.Sprintf("c04-frame %d %d", h, i), Nontrivial: false, Tags: []string{"frame"},
					Detail: map[string]any{"task": t.id, "history": strings.Split(strings.Join(w.ops, "\n"), "\n")}})
				// stamp: every row of t's table with t's ig carries t's src or another task's
				for _, row := range w.pg.Rows(t.table) {
					ig, _ := row["ig_name"].(string)
					src, _ := row["src_name"].(string)
					ok := false
					for _, o := range w.tasks {
						if o.ig == ig && o.src == src && o.table == t.table {
							ok = true
						}
					}
					if !ok {
						e.Add(core.Case{Impl: fmt.Sprintf("row stamped %q/%q", src, ig), Spec: "row stamped with an existing (source, integration) pair", Key: fmt.Sprintf("c04-stamp %d %d", h, i)})
					}
				}
			}
		}
		// settle: no more faults, growth or reorgs; every task runs until it has nothing new. Then every
		// pair's rows must be exactly what the pair produces from the source ALONE (a fresh uncached
		// client and the real row builder): whatever the other tasks fetched, cached, inserted or
		// unwound in between has neither removed nor altered nor added a row of this pair.
		// the source grows past every recorded position first: a replaced block AT a recorded position is
		// only noticed through the parent hash of its successor (C03's hypothesis)
		for guard := 0; guard < 40; guard++ {
			maxTop := uint64(0)
			for _, t := range tasks {
				maxTop = max(maxTop, w.taskTop(t))
			}
			if w.head() > maxTop {
				break
			}
			w.grow(1)
		}
		w.grow(1)
		quiet, quietRounds := false, 0
		for round := 0; round < 120 && !w.dead && !quiet; round++ {
			all := true
			for _, t := range tasks {
				if out := w.step(t, noFault); out != "nothing-new" && out != "done" {
					all = false // progress, an unwind, or a transient error (a stale cached segment): go on
				}
			}
			// a shared caching client may serve a stale head for max-reads reads (C08 bounds it): only
			// several consecutive quiet rounds mean quiescence
			if all {
				quietRounds++
			} else {
				quietRounds = 0
			}
			quiet = quietRounds >= 8
		}
		var alone []string
		if !w.dead && quiet {
			for _, t := range tasks {
				alone = append(alone, w.projOracle(t, t.start-1))
			}
		}
		op, impl := w.caseOp()
		e.Add(core.Case{Oracles: alone, Impl: "ok", Key: fmt.Sprintf("c04-alone %d %d", h, e.Seed), Nontrivial: true,
			Tags: []string{"rows-as-if-alone", fmt.Sprintf("approval-tasks=%d", nApproval), fmt.Sprintf("settled=%v", quiet), fmt.Sprintf("table-declares-stamp-columns=%d", stampCols)}, Detail: map[string]any{"history": strings.Split(op, "\n")}})
		tags := []string{fmt.Sprintf("shared-table=%v", sharedTable), fmt.Sprintf("pairs=%d", len(tasks))}
		for k, v := range w.tags {
			for j := 0; j < v; j++ {
				tags = append(tags, k)
			}
		}
		e.Add(core.Case{Op: op, Impl: impl, Nontrivial: changed > 0, Tags: tags, Key: fmt.Sprintf("c04 %d %d", h, e.Seed)})
		w.close()
	}
	// ---- two integrations on two EVENTS of the same transactions, one caching client, same ranges, both
	// orders: each pair's rows are what it writes alone (what one fetched, cached and attached must not
	// cost the other a row)
	for rep := 0; rep < e.N(4, 16) && !e.OverBudget(); rep++ {
		rr := r.Fork()
		chain := transferChain(7+rr.Intn(3), uint64(1+rr.Intn(1000)))
		w, err := newWorld(e, chain)
		if err != nil {
			return err
		}
		w.client = jrpc2.New(w.node.URL()).WithMaxReads(8).WithPollDuration(time.Hour)
		fields := core.Pick(rr, [][]string{{"block_time"}, {"block_time", "tx_input"}})
		root := config.Root{Integrations: []config.Integration{approvalIG("appr", "t1", fields, nil), transferIG("xfer", "t2", fields, nil)}}
		if err := w.setupRoot(&root); err != nil {
			w.close()
			return err
		}
		batch := 2 + rr.Intn(3)
		ta, err1 := w.addTask("appr", root.Integrations[0], "src1", 1, 0, batch, 1)
		tx, err2 := w.addTask("xfer", root.Integrations[1], "src1", 1, 0, batch, 1)
		if err1 != nil || err2 != nil {
			w.close()
			return fmt.Errorf("c04 pair: %v %v", err1, err2)
		}
		order := []*wTask{ta, tx} // the Approval log has the HIGHER index in every transaction
		if rep%2 == 1 {
			order = []*wTask{tx, ta}
		}
		for round := 0; round < 12 && !w.dead; round++ {
			for _, t := range order {
				w.step(t, noFault)
			}
		}
		var alone []string
		for _, t := range order {
			alone = append(alone, w.projOracle(t, 0))
		}
		op, impl := w.caseOp()
		e.Add(core.Case{Oracles: alone, Impl: "ok", Key: fmt.Sprintf("c04-two-events %d %d", rep, e.Seed), Nontrivial: true,
			Tags: []string{"two-events-one-cache", fmt.Sprintf("approval-first=%v", rep%2 == 0)}, Detail: map[string]any{"history": strings.Split(op, "\n")}})
		e.Add(core.Case{Op: op, Impl: impl, Nontrivial: true, Key: fmt.Sprintf("c04-two-events-k %d %d", rep, e.Seed), Tags: []string{"two-events-one-cache"}})
		w.close()
	}
	return nil
}

func runC05(e *core.Env) error {
	r := e.Rand
	nHist := e.N(30, 400)
	for h := 0; h < nHist && !e.OverBudget(); h++ {
		rr := r.Fork()
		chain := transferChain(4+rr.Intn(4), uint64(1+rr.Intn(1000)))
		fewAddrs := rr.Bool()
		// the first histories have the sharp shape of "the same value is looked up before AND after the
		// referenced integration recorded it, by the same running task": one dependent, recurring
		// addresses, block by block, reference and dependent in lockstep
		sharp := h < 4
		if sharp {
			fewAddrs = true
		}
		if fewAddrs {
			// only three participants: the SAME address is looked up again and again, sometimes before and
			// sometimes after the referenced integration has recorded it
			chain = simnode.NewChain(10+rr.Intn(5), simnode.GenOpts{Salt: uint64(1 + rr.Intn(1000)), MakeTx: recurringMakeTx})
		}
		w, err := newWorld(e, chain)
		if err != nil {
			return err
		}
		if fewAddrs {
			w.mkTx = recurringMakeTx
		}
		// A (and A2): referenced integrations storing the Transfer `to` address; B: references them
		a := transferIG("iga", "ta", []string{"block_time"}, nil)
		a2 := transferIG("iga2", "ta2", []string{"block_time", "log_addr"}, nil)
		two := rr.Bool() && !sharp
		onInput := rr.Bool() && !fewAddrs
		bOp := "contains"
		b := transferIG("igb", "tb", []string{"block_time", "log_addr", "tx_signer"}, func(ci *config.Integration) {
			if onInput {
				ci.Event.Inputs = append([]dig.Input{}, ci.Event.Inputs...)
				bOp = core.Pick(rr, []string{"contains", "!contains"})
				ci.Event.Inputs[1].Filter = dig.Filter{Op: bOp, Ref: dig.Ref{Integration: "iga", Column: "ev_to"}}
			} else {
				for j := range ci.Block {
					if ci.Block[j].Name == "log_addr" {
						ci.Block[j].Filter = dig.Filter{Op: "contains", Ref: dig.Ref{Integration: "iga", Column: "ev_from"}}
					}
				}
			}
			if two {
				for j := range ci.Block {
					if ci.Block[j].Name == "tx_signer" {
						ci.Block[j].Filter = dig.Filter{Op: "!contains", Ref: dig.Ref{Integration: "iga2", Column: "log_addr"}}
					}
				}
			}
		})
		igs := []config.Integration{a, b}
		if two {
			igs = append(igs, a2)
		}
		chainC := rr.Chance(1, 3) && !sharp
		if chainC { // C references B
			igs = append(igs, transferIG("igc", "tc", []string{"block_time", "log_addr"}, func(ci *config.Integration) {
				for j := range ci.Block {
					if ci.Block[j].Name == "log_addr" {
						ci.Block[j].Filter = dig.Filter{Op: "contains", Ref: dig.Ref{Integration: "igb", Column: "log_addr"}}
					}
				}
			}))
		}
		sameCol := rr.Chance(2, 3) && !sharp
		if sameCol { // D references the same integration (and, half of the time, the same column) as B
			col := "ev_from"
			if onInput {
				col = "ev_to"
			}
			if rr.Bool() {
				col = core.Pick(rr, []string{"ev_from", "ev_to"})
			}
			igs = append(igs, transferIG("igd", "td", []string{"block_time", "log_addr"}, func(ci *config.Integration) {
				for j := range ci.Block {
					if ci.Block[j].Name == "log_addr" {
						ci.Block[j].Filter = dig.Filter{Op: "contains", Ref: dig.Ref{Integration: "iga", Column: col}}
					}
				}
			}))
		}
		// declaration order is arbitrary: dependents may stand before or after what they reference
		for i := len(igs) - 1; i > 0; i-- {
			j := rr.Intn(i + 1)
			igs[i], igs[j] = igs[j], igs[i]
		}
		// the dependencies the CONFIGURATION declares, computed here from the references as written
		// (not read back from the implementation)
		wantDeps := map[string][]string{}
		for _, ci := range igs {
			wantDeps[ci.Name] = refsOf(ci)
		}
		root := config.Root{Integrations: igs}
		if err := w.setupRoot(&root); err != nil {
			w.close()
			return fmt.Errorf("c05 setup: %w", err)
		}
		byName := map[string]*wTask{}
		for i := range root.Integrations {
			ci := root.Integrations[i]
			stop := uint64(0)
			if len(wantDeps[ci.Name]) > 0 && rr.Chance(1, 3) {
				// a bounded dependent: the source's head is usually beyond the stop block while the
				// referenced integration is still below it
				stop = uint64(2 + rr.Intn(3))
				w.tags["dependent-with-stop"]++
			}
			if sharp {
				stop = 0
			}
			bs, cc := 1+rr.Intn(4), 1+rr.Intn(2)
			if sharp {
				bs, cc = 1, 1
			}
			t, err := w.addTask("t"+ci.Name, ci, "src1", 1, stop, bs, cc)
			if err != nil {
				w.close()
				return err
			}
			byName[ci.Name] = t
		}
		depSteps := 0
		var names []string
		for n := range byName {
			names = append(names, n)
		}
		names = sortedCopy(names)
		nSteps := 16 + rr.Intn(12)
		if sharp {
			nSteps = 30
		}
		for i := 0; i < nSteps && !w.dead; i++ {
			if !sharp && rr.Chance(1, 5) {
				w.grow(1 + rr.Intn(2))
				continue
			}
			// biased schedule: dependents are often tried before their references
			name := core.Pick(rr, names)
			if i < 4 && rr.Bool() {
				name = "igb"
			}
			if sharp {
				name = []string{"iga", "igb"}[i%2]
			}
			t := byName[name]
			before := w.digest()
			out := w.step(t, noFault)
			if len(wantDeps[name]) == 0 {
				continue
			}
			depSteps++
			minDep, missing := ^uint64(0), false
			for _, d := range wantDeps[name] {
				dt := byName[d]
				_, top, has, _ := w.taskRows(dt)
				if !has {
					missing = true
				} else {
					minDep = min(minDep, top)
				}
			}
			verdict := "ok"
			_, top, has, _ := w.taskRows(t)
			switch {
			case missing && w.digest() != before:
				verdict = "wrote while a referenced integration has no recorded position"
			case missing && strings.HasPrefix(out, "ok"):
				verdict = "advanced while a referenced integration has no recorded position"
			case !missing && has && top > minDep:
				verdict = fmt.Sprintf("position %d ahead of referenced position %d", top, minDep)
			}
			e.Add(core.Case{Impl: verdict, Spec: "ok", Key: fmt.Sprintf("c05-gate %d %d", h, i), Nontrivial: true, Tags: []string{"dep-step", fmt.Sprintf("missing=%v", missing), "out:" + strings.SplitN(out, " ", 2)[0]},
				Detail: map[string]any{"task": t.id, "declared_references": wantDeps[name], "loaded_dependencies": t.deps, "history": strings.Split(strings.Join(w.ops, "\n"), "\n")}})
		}
		if h == 0 {
			// an integration with a filter reference stored through the dashboard is loaded without
			// ValidateFix: no Dependencies are computed for it (recorded finding)
			pg2 := fakepg.New()
			url2, _ := pg2.Start()
			pool2, perr := pgxpool.New(w.ctx, url2)
			if perr == nil {
				g := gIg{name: "igb", enabled: true, srcs: []string{"src1"}, refs: [][3]uint64{{0, 1, 0}}}
				cj := g.json()
				cj = strings.Replace(cj, `"name":"block_time"`, `"name":"block_time","filter_op":"contains","filter_ref":{"integration":"iga","column":"ev_to"}`, 1)
				pg2.InsertRow("shovel.integrations", map[string]fakepg.Value{"name": "igb", "conf": fakepg.JSON(cj)})
				conf := config.Root{Sources: []config.Source{{Name: "src1", ChainID: 7, URLs: []string{"http://127.0.0.1:1"}, PollDuration: time.Second}},
					Integrations: []config.Integration{transferIG("iga", "ta", []string{"block_time"}, func(ci *config.Integration) { ci.Sources = []config.Source{{Name: "src1", Start: 1}} })}}
				config.ValidateFix(&conf)
				ts, lerr := shovel.VerifLoadTasks(w.ctx, pool2, conf)
				verdict := "ok"
				if lerr == nil {
					for _, t := range ts {
						if t.IG == "igb" && len(t.Dependencies) == 0 {
							verdict = "the dashboard-stored integration igb references iga but is loaded with no dependencies"
						}
					}
				}
				e.Add(core.Case{Impl: verdict, Spec: "ok", Class: "C05.dashboard_no_dependencies", Key: "c05-dashboard", Nontrivial: true, Tags: []string{"dashboard-dependencies"}})
				// a stored integration whose document DOES list its dependencies (what POST /save-integration keeps when
				// the client sends them), the reference sitting on a block field: it is loaded with them
				gc := gIg{name: "igc", enabled: true, srcs: []string{"src1"}, refs: [][3]uint64{{0, 1, 0}}}
				cjc := gc.json()
				cjc = strings.Replace(cjc, `"name":"block_time"`, `"name":"block_time","filter_op":"contains","filter_ref":{"integration":"iga","column":"ev_to"}`, 1)
				cjc = strings.Replace(cjc, `"name":"igc"`, `"Dependencies":["iga"],"name":"igc"`, 1)
				if strings.Contains(cjc, `"Dependencies":["iga"]`) {
					pg2.InsertRow("shovel.integrations", map[string]fakepg.Value{"name": "igc", "conf": fakepg.JSON(cjc)})
					verdictC := "ok"
					if ts, lerr := shovel.VerifLoadTasks(w.ctx, pool2, conf); lerr != nil {
						verdictC = "load: " + lerr.Error()
					} else {
						found := false
						for _, t := range ts {
							if t.IG == "igc" {
								found = true
								if strings.Join(t.Dependencies, ",") != "iga" {
									verdictC = fmt.Sprintf("igc is stored with Dependencies [iga] (its reference sits on a block field) and is loaded with %v", t.Dependencies)
								}
							}
						}
						if !found {
							verdictC = "the stored integration igc is not loaded"
						}
					}
					e.Add(core.Case{Impl: verdictC, Spec: "ok", Key: "c05-dashboard-listed", Nontrivial: true, Tags: []string{"dashboard-dependencies-listed"}})
				}
				// the same name declared in the file AND stored through the dashboard: the file's (validated)
				// declaration is the one that runs, with its dependencies
				conf2 := config.Root{Sources: conf.Sources, Integrations: []config.Integration{
					transferIG("iga", "ta", []string{"block_time"}, func(ci *config.Integration) { ci.Sources = []config.Source{{Name: "src1", Start: 1}} }),
					transferIG("igb", "tb", []string{"block_time", "log_addr"}, func(ci *config.Integration) {
						ci.Sources = []config.Source{{Name: "src1", Start: 1}}
						for j := range ci.Block {
							if ci.Block[j].Name == "log_addr" {
								ci.Block[j].Filter = dig.Filter{Op: "contains", Ref: dig.Ref{Integration: "iga", Column: "ev_from"}}
							}
						}
					})}}
				verdict2 := "ok"
				if verr := config.ValidateFix(&conf2); verr != nil {
					verdict2 = "rejected: " + verr.Error()
				} else if ts, lerr := shovel.VerifLoadTasks(w.ctx, pool2, conf2); lerr != nil {
					verdict2 = "load: " + lerr.Error()
				} else {
					found := false
					for _, t := range ts {
						if t.IG == "igb" {
							found = true
							if strings.Join(t.Dependencies, ",") != "iga" {
								verdict2 = fmt.Sprintf("igb is declared in the file with a reference to iga but runs with dependencies %v", t.Dependencies)
							}
						}
					}
					if !found {
						verdict2 = "no task for igb"
					}
				}
				e.Add(core.Case{Impl: verdict2, Spec: "ok", Key: "c05-file-and-dashboard", Nontrivial: true, Tags: []string{"file-declaration-wins"}})
				// the dependent runs on a source on which the referenced integration does NOT run (or the referenced
				// integration is disabled): "until all of them have recorded progress it does nothing" — the
				// dependency stays, the dependent's task on that source records nothing
				for vi, variant := range []string{"referenced-not-on-that-source", "referenced-disabled"} {
					nodeX := simnode.NewNode(transferChain(8, uint64(40+vi)))
					pg3 := fakepg.New()
					url3, _ := pg3.Start()
					pool3, perr := pgxpool.New(w.ctx, url3)
					if perr != nil {
						nodeX.Close()
						pg3.Close()
						continue
					}
					srcs := []config.Source{{Name: "src1", ChainID: 7, URLs: []string{nodeX.URL()}, PollDuration: 3 * time.Millisecond, BatchSize: 2},
						{Name: "src2", ChainID: 8, URLs: []string{nodeX.URL()}, PollDuration: 3 * time.Millisecond, BatchSize: 2}}
					conf3 := config.Root{Sources: srcs, Integrations: []config.Integration{
						transferIG("iga", "ta", []string{"block_time"}, func(ci *config.Integration) {
							ci.Sources = []config.Source{{Name: "src1", Start: 1}}
							if variant == "referenced-disabled" {
								ci.Sources = []config.Source{{Name: "src1", Start: 1}, {Name: "src2", Start: 1}}
								ci.Enabled = false
							}
						}),
						transferIG("igb", "tb", []string{"block_time", "log_addr"}, func(ci *config.Integration) {
							ci.Sources = []config.Source{{Name: "src1", Start: 1}, {Name: "src2", Start: 1}}
							for j := range ci.Block {
								if ci.Block[j].Name == "log_addr" {
									ci.Block[j].Filter = dig.Filter{Op: "contains", Ref: dig.Ref{Integration: "iga", Column: "ev_from"}}
								}
							}
						})}}
					verdict3 := "ok"
					if verr := config.ValidateFix(&conf3); verr != nil {
						verdict3 = "rejected: " + verr.Error()
					} else {
						conn, _ := pool3.Acquire(w.ctx)
						config.Migrate(w.ctx, conn, conf3)
						conn.Release()
						ts, lerr := shovel.VerifLoadTasks(w.ctx, pool3, conf3)
						if lerr != nil {
							verdict3 = "load: " + lerr.Error()
						}
						for _, t := range ts {
							if t.IG == "igb" && strings.Join(t.Dependencies, ",") != "iga" {
								verdict3 = fmt.Sprintf("igb on %s references iga but runs with dependencies %v", t.Src, t.Dependencies)
							}
						}
						// and the program's own loop: the dependent must not record anything where iga records nothing
						mgr := shovel.NewManager(w.ctx, pool3, conf3)
						go func() {
							for {
								mgr.Updates()
							}
						}()
						ec := make(chan error)
						go mgr.Run(ec)
						if err := <-ec; err == nil {
							time.Sleep(250 * time.Millisecond)
							has := map[string]bool{}
							for _, r := range pg3.Rows("shovel.task_updates") {
								has[fmt.Sprint(r["src_name"])+"/"+fmt.Sprint(r["ig_name"])] = true
							}
							for _, s := range []string{"src1", "src2"} {
								if has[s+"/igb"] && !has[s+"/iga"] {
									verdict3 = fmt.Sprintf("igb recorded progress on %s although the integration it references has recorded none there", s)
								}
							}
						}
					}
					e.Add(core.Case{Impl: verdict3, Spec: "ok", Key: "c05-per-source " + variant, Nontrivial: true, Tags: []string{"dependency-per-source", variant}})
					nodeX.Close()
					go pool3.Close()
					pg3.Close()
				}
				go pool2.Close()
			}
			pg2.Close()
		}
		// ---- "its lookups always see the complete referenced data for the block being processed":
		// computed from the node's chain alone. When B processed block n, iga had recorded every block <= n,
		// so a Transfer of block n whose looked-up value occurs in iga's column within blocks 1..n MUST
		// have produced a row of B (membership filter, or-aggregation: one accepting filter suffices).
		if bOp == "contains" && !w.dead {
			var chainNow *simnode.Chain
			w.node.With(func(c *simnode.Chain) { chainNow = c.Clone() })
			tb := byName["igb"]
			_, topB, hasB, _ := w.taskRows(tb)
			have := map[string]bool{}
			for _, r := range w.pg.Rows("tb") {
				if r["ig_name"] == "igb" {
					have[fmt.Sprintf("%s/%s/%s", renderPG(r["block_num"]), renderPG(r["tx_idx"]), renderPG(r["log_idx"]))] = true
				}
			}
			seenVals := map[string]bool{} // iga's column values in blocks 1..n
			sig := transferEvent.SignatureHash()
			verdict, checked := "ok", 0
			for n := 1; hasB && n < len(chainNow.Blocks) && uint64(n) <= topB; n++ {
				blk := &chainNow.Blocks[n]
				for ti := range blk.Txs {
					for li := range blk.Txs[ti].Logs {
						l := &blk.Txs[ti].Logs[li]
						if len(l.Topics) == 3 && bytes.Equal(l.Topics[0], sig) {
							if onInput {
								seenVals[fmt.Sprintf("%x", l.Topics[2][12:])] = true // iga.ev_to
							} else {
								seenVals[fmt.Sprintf("%x", l.Topics[1][12:])] = true // iga.ev_from
							}
						}
					}
				}
				for ti := range blk.Txs {
					for li := range blk.Txs[ti].Logs {
						l := &blk.Txs[ti].Logs[li]
						if len(l.Topics) != 3 || !bytes.Equal(l.Topics[0], sig) {
							continue
						}
						v := fmt.Sprintf("%x", l.Addr)
						if onInput {
							v = fmt.Sprintf("%x", l.Topics[2][12:])
						}
						if seenVals[v] {
							checked++
							key := fmt.Sprintf("n:%d/n:%d/n:%d", blk.Num, blk.Txs[ti].Idx, l.Idx)
							if !have[key] && verdict == "ok" {
								verdict = fmt.Sprintf("block %d tx %d log %d: the looked-up value %s is in iga's column within blocks 1..%d, but igb has no row for this log", blk.Num, blk.Txs[ti].Idx, l.Idx, v, n)
							}
						}
					}
				}
			}
			e.Add(core.Case{Impl: verdict, Spec: "ok", Key: fmt.Sprintf("c05-complete %d", h), Nontrivial: checked > 0,
				Tags: []string{"lookup-completeness", fmt.Sprintf("recurring-addresses=%v", fewAddrs)}, Detail: map[string]any{"history": strings.Split(strings.Join(w.ops, "\n"), "\n")}})
		}
		op, impl := w.caseOp()
		e.Add(core.Case{Op: op, Impl: impl, Nontrivial: depSteps > 0, Tags: []string{fmt.Sprintf("two-refs=%v", two), fmt.Sprintf("on-input=%v", onInput), fmt.Sprintf("chain=%v", chainC), fmt.Sprintf("second-dependent=%v", sameCol), fmt.Sprintf("recurring-addresses=%v", fewAddrs)}, Key: fmt.Sprintf("c05 %d %d", h, e.Seed)})
		w.close()
	}
	cfgDepsCases(e)
	return nil
}

// refsOf lists (sorted, without duplicates) the integrations an integration's filters reference.
func refsOf(ci config.Integration) []string {
	set := map[string]bool{}
	for _, in := range ci.Event.Inputs {
		if in.Filter.Ref.Integration != "" {
			set[in.Filter.Ref.Integration] = true
		}
	}
	for _, b := range ci.Block {
		if b.Filter.Ref.Integration != "" {
			set[b.Filter.Ref.Integration] = true
		}
	}
	var out []string
	for n := range set {
		out = append(out, n)
	}
	return sortedCopy(out)
}

// cfgDepsCases: random configurations (2-6 integrations, any number of them referencing the same
// integration / column, dangling and malformed references mixed in) through the real
// config.ValidateFilterRefs; K: the Dependencies equal the Lean model's (Deps.validate), O: an
// accepted configuration makes every integration wait for exactly the integrations it references.
func cfgDepsCases(e *core.Env) {
	r := e.Rand
	n := e.N(250, 4000)
	enc := func(x string) string {
		if x == "" {
			return "~"
		}
		return x
	}
	for c := 0; c < n; c++ {
		rr := r.Fork()
		k := 2 + rr.Intn(5)
		names := []string{"pools", "swaps", "mints", "burns", "syncs", "fees"}[:k]
		hostile := rr.Chance(1, 4)
		var igs []config.Integration
		for i, nm := range names {
			tbl := "t_" + nm
			if rr.Chance(1, 6) && i > 0 {
				tbl = "t_" + names[rr.Intn(i)] // shared table
			}
			ig := transferIG(nm, tbl, []string{"block_time", "log_addr"}, nil)
			mkRef := func() dig.Ref {
				ref := dig.Ref{Integration: core.Pick(rr, names), Column: core.Pick(rr, []string{"ev_from", "ev_to", "log_addr", "ev_from"})}
				if hostile && rr.Chance(1, 4) {
					switch rr.Intn(5) {
					case 0:
						ref.Integration = "nosuch"
					case 1:
						ref.Column = "nosuchcol"
					case 2:
						ref.Column = ""
					case 3:
						ref.Integration, ref.Table = "", "t_pools"
					case 4:
						ref.Integration = ""
					}
				}
				return ref
			}
			ig.Event.Inputs = append([]dig.Input{}, ig.Event.Inputs...)
			for j := range ig.Event.Inputs {
				if rr.Chance(1, 3) {
					ig.Event.Inputs[j].Filter = dig.Filter{Op: "contains", Ref: mkRef()}
				}
			}
			for j := range ig.Block {
				if rr.Chance(1, 2) {
					ig.Block[j].Filter = dig.Filter{Op: "contains", Ref: mkRef()}
				}
			}
			igs = append(igs, ig)
		}
		var parts []string
		want := map[string][]string{}
		for _, ig := range igs {
			var cols, ir, br []string
			for _, col := range ig.Table.Columns {
				cols = append(cols, col.Name)
			}
			fr := func(ref dig.Ref) string { return enc(ref.Integration) + ":" + enc(ref.Column) + ":" + enc(ref.Table) }
			for _, in := range ig.Event.Inputs {
				ir = append(ir, fr(in.Filter.Ref))
			}
			for _, b := range ig.Block {
				br = append(br, fr(b.Filter.Ref))
			}
			parts = append(parts, strings.Join([]string{ig.Name, ig.Table.Name, strings.Join(cols, ","), strings.Join(ir, "+"), strings.Join(br, "+")}, "/"))
			want[ig.Name] = refsOf(ig)
		}
		// an untouched copy for the second entry point (validation writes into the declarations)
		igs2 := make([]config.Integration, len(igs))
		for i := range igs {
			igs2[i] = igs[i]
			igs2[i].Event.Inputs = append([]dig.Input{}, igs[i].Event.Inputs...)
			igs2[i].Block = append([]dig.BlockData{}, igs[i].Block...)
			igs2[i].Table.Columns = append([]wpg.Column{}, igs[i].Table.Columns...)
			igs2[i].Dependencies = nil
		}
		root := config.Root{Integrations: igs}
		impl := core.Protect(func() string {
			if err := config.ValidateFilterRefs(&root); err != nil {
				return "reject"
			}
			var out []string
			for _, ig := range root.Integrations {
				out = append(out, ig.Name+"="+strings.Join(ig.Dependencies, ","))
			}
			return "ok " + strings.Join(out, ";")
		})
		nrefs := 0
		for _, v := range want {
			nrefs += len(v)
		}
		e.Add(core.Case{Op: "cfgdeps " + strings.Join(parts, ";"), Impl: impl, Nontrivial: nrefs > 0,
			Tags: []string{"cfgdeps", "impl:" + strings.SplitN(impl, " ", 2)[0], fmt.Sprintf("hostile=%v", hostile)}})
		if strings.HasPrefix(impl, "ok") {
			// oracle: the set of dependencies of every integration = the set of integrations it references
			var got, exp []string
			for _, ig := range root.Integrations {
				set := map[string]bool{}
				for _, d := range ig.Dependencies {
					set[d] = true
				}
				var ds []string
				for d := range set {
					ds = append(ds, d)
				}
				got = append(got, ig.Name+"="+strings.Join(sortedCopy(ds), ","))
				exp = append(exp, ig.Name+"="+strings.Join(want[ig.Name], ","))
			}
			e.Add(core.Case{Impl: strings.Join(got, ";"), Spec: strings.Join(exp, ";"), Key: "cfgdeps-o " + strings.Join(parts, ";"), Nontrivial: nrefs > 0,
				Tags: []string{"cfgdeps-oracle", fmt.Sprintf("refs=%d", min(nrefs, 6))}, Detail: map[string]any{"config": parts}})
			// the same through the WHOLE validation entry point (what a configuration file goes through): whatever
			// else ValidateFix does to the declarations, an accepted one still waits for everything it references
			root2 := config.Root{Integrations: igs2}
			if verr := config.ValidateFix(&root2); verr == nil {
				var got2 []string
				for _, ig := range root2.Integrations {
					set := map[string]bool{}
					for _, d := range ig.Dependencies {
						set[d] = true
					}
					var ds []string
					for d := range set {
						ds = append(ds, d)
					}
					got2 = append(got2, ig.Name+"="+strings.Join(sortedCopy(ds), ","))
				}
				e.Add(core.Case{Impl: strings.Join(got2, ";"), Spec: strings.Join(exp, ";"), Key: "cfgdeps-validatefix " + strings.Join(parts, ";"), Nontrivial: nrefs > 0,
					Tags: []string{"cfgdeps-oracle", "through-ValidateFix"}, Detail: map[string]any{"config": parts}})
			}
		}
	}
}

func runC06(e *core.Env) error {
	r := e.Rand
	dashboardRange(e, "c06")
	type cfg struct{ start, stop uint64 }
	var grid []cfg
	for _, st := range []uint64{0, 1, 3, 6, 9} {
		for _, sp := range []uint64{0, 2, 3, 5, 6, 8, 12} {
			if sp == 0 || st == 0 || sp >= st {
				grid = append(grid, cfg{st, sp})
			}
		}
	}
	reps := e.N(2, 8)
	for rep := 0; rep < reps; rep++ {
		for _, g := range grid {
			if e.OverBudget() {
				break
			}
			rr := r.Fork()
			headLen := 5 + rr.Intn(4) // head = headLen-1: starts/stops before, at and after the head
			chain := transferChain(headLen, uint64(1+rr.Intn(1000)))
			w, err := newWorld(e, chain)
			if err != nil {
				return err
			}
			// a third of the time the task under test is a DEPENDENT (a filter reference on another
			// integration that is kept ahead of it): start / stop / completion apply to it all the same
			dependent := rr.Chance(1, 3)
			igsC06 := []config.Integration{transferIG("ig1", "t1", []string{"block_time"}, nil)}
			if dependent {
				igsC06 = []config.Integration{
					transferIG("ig1", "t1", []string{"block_time", "log_addr"}, func(ci *config.Integration) {
						for j := range ci.Block {
							if ci.Block[j].Name == "log_addr" {
								ci.Block[j].Filter = dig.Filter{Op: core.Pick(rr, []string{"contains", "!contains"}), Ref: dig.Ref{Integration: "iga", Column: "ev_from"}}
							}
						}
					}),
					transferIG("iga", "ta", []string{"block_time"}, nil),
				}
			}
			root := config.Root{Integrations: igsC06}
			if err := w.setupRoot(&root); err != nil {
				w.close()
				return err
			}
			batch := 1 + rr.Intn(6)
			// the range reaches the task the way it does in production: through the JSON form of the
			// integration's source reference
			var srcRef config.Source
			doc := fmt.Sprintf(`{"name": "src1", "start": %d, "stop": %d}`, g.start, g.stop)
			if g.stop == 0 && rr.Bool() {
				doc = fmt.Sprintf(`{"name": "src1", "start": %d}`, g.start)
			}
			if err := json.Unmarshal([]byte(doc), &srcRef); err != nil || srcRef.Name != "src1" {
				e.Add(core.Case{Impl: fmt.Sprintf("source reference %s not decoded: %v", doc, err), Spec: "decoded", Key: "c06-json " + doc})
				w.close()
				continue
			}
			e.Add(core.Case{Impl: fmt.Sprintf("%d %d", srcRef.Start, srcRef.Stop), Spec: fmt.Sprintf("%d %d", g.start, g.stop), Key: "c06-json " + doc, Nontrivial: true, Tags: []string{"range-from-json"}})
			t, err := w.addTask("t1", root.Integrations[0], "src1", srcRef.Start, srcRef.Stop, batch, 1+rr.Intn(3))
			if err != nil {
				w.close()
				return err
			}
			var ahead *wTask
			runAhead := func() {
				for k := 0; ahead != nil && k < 40 && !w.dead; k++ {
					if out := w.step(ahead, noFault); !strings.HasPrefix(out, "ok") {
						break
					}
				}
			}
			if dependent {
				ahead, err = w.addTask("ta", root.Integrations[1], "src1", 1, 0, 4, 1)
				if err != nil {
					w.close()
					return err
				}
				runAhead()
			}
			// optionally a prior recorded position (as left by an earlier run with another start)
			prior := rep%2 == 1 && rr.Chance(2, 3) // (every grid point is run at least once WITHOUT a prior position)
			if prior {
				pn := uint64(1 + rr.Intn(4))
				var hsh []byte
				w.node.With(func(c *simnode.Chain) { hsh = c.Blocks[pn].Hash })
				w.pg.InsertRow("shovel.task_updates", map[string]fakepg.Value{"src_name": "src1", "ig_name": "ig1", "num": fakepg.Num(fmt.Sprint(pn)), "hash": hsh})
				w.ops = append(w.ops, fmt.Sprintf("w-cur src1 ig1 %d %x", pn, hsh))
				w.outs = append(w.outs, "ok")
			}
			var oracles []string
			doneSeen, reached := false, false
			lo := uint64(0)
			if g.start > 0 && !prior {
				lo = g.start - 1
			}
			for i := 0; i < 30 && !w.dead; i++ {
				switch rr.Intn(8) {
				case 0:
					w.grow(1 + rr.Intn(2))
					runAhead()
					continue
				case 1:
					w.newPool()
					w.buildTask(t)
					if ahead != nil {
						w.buildTask(ahead)
					}
					w.tags["restart"]++
					continue
				}
				before := w.taskDigest(t)
				headBefore := w.head()
				_, _, hadPos, _ := w.taskRows(t)
				out := w.step(t, noFault)
				if _, _, hasNow, _ := w.taskRows(t); g.start == 0 && !prior && !hadPos && hasNow && lo == 0 {
					lo = headBefore - 1 // no start, no position: begins at the source's head of that moment
				}
				oracles = append(oracles, w.withinOracle(t, lo))
				_, top, has, _ := w.taskRows(t)
				verdict := "ok"
				switch {
				case doneSeen && w.taskDigest(t) != before:
					verdict = "wrote after completion was reported"
				case out == "done" && !(g.stop > 0 && (has && top >= g.stop ||
					!has && (g.start == 0 && w.head()-1 >= g.stop || g.start > 0 && g.start-1 >= g.stop))):
					// (an empty range — the initial position is already at or beyond stop — is complete at once)
					verdict = "completion reported before the stop block was recorded"
				case g.stop > 0 && has && top >= g.stop && i > 0 && out != "done" && w.taskDigest(t) == before && out != "err":
					// position already at stop before this step: the step must report completion
					verdict = "stop recorded but step reported " + out
				case has && g.stop > 0 && top > g.stop && !prior:
					verdict = fmt.Sprintf("position %d beyond stop %d", top, g.stop)
				}
				if out == "done" {
					doneSeen, reached = true, true
				}
				if verdict != "ok" {
					e.Add(core.Case{Impl: verdict, Spec: "ok", Key: fmt.Sprintf("c06 %d %d %d %d", g.start, g.stop, rep, i),
						Detail: map[string]any{"start": g.start, "stop": g.stop, "batch": batch, "prior": prior, "history": strings.Split(strings.Join(w.ops, "\n"), "\n")}})
				}
			}
			op, impl := w.caseOp()
			e.Add(core.Case{Op: op, Impl: impl, Oracles: oracles, Nontrivial: reached || prior, Key: fmt.Sprintf("c06 %d %d %d %d %d", g.start, g.stop, batch, headLen, rep),
				Tags: []string{fmt.Sprintf("start=%d", g.start), fmt.Sprintf("stop=%d", g.stop), fmt.Sprintf("prior=%v", prior), fmt.Sprintf("done=%v", reached), fmt.Sprintf("dependent=%v", dependent)}})
			w.close()
		}
	}
	// ---- a bounded task next to an unbounded one on ONE caching client, at the same position, with the
	// stop inside the other's batch; the unbounded one asks first (whatever the cache hands out, the
	// bounded task must not write past its stop)
	for rep := 0; rep < e.N(4, 24) && !e.OverBudget(); rep++ {
		rr := r.Fork()
		chain := transferChain(24+rr.Intn(6), uint64(1+rr.Intn(1000)))
		w, err := newWorld(e, chain)
		if err != nil {
			return err
		}
		w.client = jrpc2.New(w.node.URL()).WithMaxReads(3 + rr.Intn(3)).WithPollDuration(time.Hour)
		fields := core.Pick(rr, [][]string{{"block_time"}, {"block_time", "tx_input"}})
		root := config.Root{Integrations: []config.Integration{transferIG("live", "t1", fields, nil), transferIG("bounded", "t2", fields, nil)}}
		if err := w.setupRoot(&root); err != nil {
			w.close()
			return err
		}
		batch := 6 + rr.Intn(5)
		stop := uint64(2 + rr.Intn(batch-2)) // strictly inside the first batch [1, batch]
		live, err1 := w.addTask("live", root.Integrations[0], "src1", 1, 0, batch, 1)
		bnd, err2 := w.addTask("bounded", root.Integrations[1], "src1", 1, stop, batch, 1)
		if err1 != nil || err2 != nil {
			w.close()
			return fmt.Errorf("c06 pair: %v %v", err1, err2)
		}
		var oracles []string
		order := []*wTask{live, bnd}
		if rep%3 == 2 {
			order = []*wTask{bnd, live}
		}
		for round := 0; round < 4 && !w.dead; round++ {
			for _, t := range order {
				w.step(t, noFault)
				oracles = append(oracles, w.withinOracle(bnd, 0))
			}
		}
		verdict := "ok"
		if _, top, has, _ := w.taskRows(bnd); has && top > stop {
			verdict = fmt.Sprintf("bounded task recorded position %d beyond its stop %d", top, stop)
		}
		e.Add(core.Case{Impl: verdict, Spec: "ok", Key: fmt.Sprintf("c06-pair-o %d", rep), Nontrivial: true, Tags: []string{"bounded-next-to-unbounded-oracle"}})
		op, impl := w.caseOp()
		e.Add(core.Case{Op: op, Impl: impl, Oracles: oracles, Nontrivial: true, Key: fmt.Sprintf("c06-pair %d %d", rep, e.Seed), Tags: []string{"bounded-next-to-unbounded"}})
		w.close()
	}
	// ---- the range as WRITTEN: start / stop / chain_id go through wos.EnvUint64 (bare number, quoted
	// number, or "$VARIABLE"); whatever the spelling, the text is read as a decimal number or refused
	{
		var toks []string
		for _, n := range []uint64{0, 1, 7, 8, 9, 10, 17, 100, 17000000, 17000100, 1 << 32, 1<<63 - 1, 1 << 63, 1<<64 - 1} {
			d := fmt.Sprint(n)
			toks = append(toks, d, "0"+d, "00"+d, "000000"+d, "0x"+d, "0X"+d, "0o"+d, "0b"+d, "+"+d, "-"+d, " "+d, d+" ", d+"_000", "1_"+d, d+".0", d+"e1")
		}
		toks = append(toks, "", "0", "00", "0x", "x", "18446744073709551616", "018446744073709551616", "99999999999999999999999", "0777", "0o777", "010", "08", "09", "1e3", "0b101", "\\u0031")
		for i := 0; i < e.N(40, 600); i++ {
			n := 1 + r.Intn(22)
			b := make([]byte, n)
			for k := range b {
				b[k] = core.Pick(r, []byte("0000123456789789xXob_+- .e"))
				if r.Chance(4, 5) {
					b[k] = byte('0' + r.Intn(10))
				}
			}
			if r.Bool() {
				b[0] = '0'
			}
			toks = append(toks, string(b))
		}
		os.Setenv("C06_RANGE_VALUE", "unset-yet")
		for ti, tk := range toks {
			for _, form := range []string{"bare", "quoted", "env"} {
				token, env := tk, ""
				switch form {
				case "quoted":
					token = `"` + tk + `"`
				case "env":
					if tk == "" {
						continue // (an empty variable terminates the process: not run in-process)
					}
					token, env = `"$c06_range_value"`, tk
					os.Setenv("C06_RANGE_VALUE", tk)
				}
				impl := core.Protect(func() string {
					var v wos.EnvUint64
					if err := v.UnmarshalJSON([]byte(token)); err != nil {
						return "err"
					}
					return fmt.Sprintf("ok %d", uint64(v))
				})
				// independent reading: a non-empty run of decimal digits below 2^64, nothing else
				spec := "err"
				if z, ok := new(big.Int).SetString(tk, 10); ok && tk != "" && strings.Trim(tk, "0123456789") == "" && z.IsUint64() {
					spec = fmt.Sprintf("ok %d", z.Uint64())
				}
				e.Add(core.Case{Op: "envu64 " + core.Hex([]byte(token)) + " " + core.Hex([]byte(env)), Impl: impl, Spec: spec, Nontrivial: true,
					Key: fmt.Sprintf("c06-envu64 %d %s", ti, form), Tags: []string{"range-as-written", "form=" + form, "impl:" + strings.SplitN(impl, " ", 2)[0], fmt.Sprintf("leading-zero=%v", len(tk) > 1 && tk[0] == '0')}})
				// and the same text inside a whole source reference, decoded the way the configuration file is
				if form != "bare" && spec != "err" {
					var sr config.Source
					doc := fmt.Sprintf(`{"name": "src1", "start": %s, "stop": %s}`, token, token)
					got := "err"
					if err := json.Unmarshal([]byte(doc), &sr); err == nil {
						got = fmt.Sprintf("ok %d %d", sr.Start, sr.Stop)
					}
					e.Add(core.Case{Impl: got, Spec: spec + strings.TrimPrefix(spec, "ok"), Key: fmt.Sprintf("c06-srcref %d %s", ti, form), Nontrivial: true, Tags: []string{"range-as-written-in-source-reference"}, Detail: map[string]any{"document": doc, "variable": env}})
				}
			}
		}
		os.Unsetenv("C06_RANGE_VALUE")
	}
	// ---- "with none it begins at the source's CURRENT head": an integration without a start joins a
	// source whose (shared, caching) client has been serving another task for a while; the chain has
	// grown since the client last looked. Its first recorded position is the head at that moment.
	for rep := 0; rep < e.N(4, 16) && !e.OverBudget(); rep++ {
		rr := r.Fork()
		chain := transferChain(5+rr.Intn(4), uint64(1+rr.Intn(1000)))
		w, err := newWorld(e, chain)
		if err != nil {
			return err
		}
		w.client = jrpc2.New(w.node.URL()).WithMaxReads(6 + rr.Intn(3)).WithPollDuration(time.Hour)
		root := config.Root{Integrations: []config.Integration{transferIG("old", "t1", []string{"block_time"}, nil), transferIG("late", "t2", []string{"block_time"}, nil)}}
		if err := w.setupRoot(&root); err != nil {
			w.close()
			return err
		}
		old, err1 := w.addTask("old", root.Integrations[0], "src1", 1, 0, 3, 1)
		late, err2 := w.addTask("late", root.Integrations[1], "src1", 0, 0, 1+rr.Intn(3), 1)
		if err1 != nil || err2 != nil {
			w.close()
			return fmt.Errorf("c06 late: %v %v", err1, err2)
		}
		for k := 0; k < 12 && !w.dead; k++ {
			if out := w.step(old, noFault); !strings.HasPrefix(out, "ok") {
				break
			}
		}
		w.grow(1 + rep%4)
		h0 := w.head()
		verdict := "ok"
		if rep%2 == 1 {
			// the source refuses the request for its head just then (one method rate-limited): the step fails and
			// writes nothing — it does not fall back on a head the client saw earlier
			w.node.SetAfter(func(ex *simnode.Exchange) {
				if len(ex.Requests) == 1 && ex.Requests[0].Method == "eth_getBlockByNumber" && len(ex.Requests[0].Params) > 0 && string(ex.Requests[0].Params[0]) == `"latest"` {
					ex.Status = 429
				}
			})
			before := w.digest()
			o := w.step(late, noFault)
			w.node.SetAfter(nil)
			if strings.HasPrefix(o, "ok") || w.digest() != before {
				verdict = fmt.Sprintf("the source refused to tell its head, yet the step of the integration without a start answered %q and wrote (head %d)", o, h0)
			}
		}
		out := w.step(late, noFault)
		rows, top, has, first := w.taskRows(late)
		switch {
		case verdict != "ok":
		case !strings.HasPrefix(out, "ok") || !has:
			verdict = "first step of the late integration: " + out
		case first != h0 || top != h0:
			verdict = fmt.Sprintf("the source's head is %d; the integration without a start recorded positions %d..%d", h0, first, top)
		}
		for _, r := range rows {
			var bn uint64
			fmt.Sscanf(r, "%d:", &bn)
			if bn < h0 {
				verdict = fmt.Sprintf("the source's head is %d; the integration without a start wrote a row for block %d", h0, bn)
			}
		}
		op, impl := w.caseOp()
		e.Add(core.Case{Impl: verdict, Spec: "ok", Key: fmt.Sprintf("c06-late-o %d", rep), Nontrivial: true, Tags: []string{"begins-at-current-head"}, Detail: map[string]any{"history": strings.Split(op, "\n")}})
		e.Add(core.Case{Op: op, Impl: impl, Oracles: []string{w.withinOracle(late, h0-1)}, Nontrivial: true, Key: fmt.Sprintf("c06-late %d %d", rep, e.Seed), Tags: []string{"begins-at-current-head"}})
		w.close()
	}
	return nil
}

var _ = wpg.Column{}

// recurringMakeTx: like transferMakeTx, but the participants of the Transfers rotate through seven fixed
// addresses with the block number: the address a log is emitted BY at block n is the SENDER three
// blocks later - so a lookup "log_addr in senders recorded so far" is first negative and, once the
// referenced integration has passed that block, positive for the same value
func recurringMakeTx(salt, num, idx uint64, tx *simnode.Tx) {
	transferMakeTx(salt, num, idx, tx)
	who := func(k uint64) []byte { return simnode.Derive("participant", k%7)[:20] }
	for i := range tx.Logs {
		l := &tx.Logs[i]
		if len(l.Topics) == 3 && bytes.Equal(l.Topics[0], transferEvent.SignatureHash()) {
			l.Topics[1] = padAddr(who(num))
			l.Topics[2] = padAddr(who(num + 5))
			l.Addr = who(num + 3)
		}
	}
}
