package props

import (
	"context"
	"errors"
	"fmt"
	"sort"
	"strings"
	"sync"
	"time"

	"github.com/indexsupply/shovel/eth"
	"github.com/indexsupply/shovel/jrpc2"
	"github.com/indexsupply/shovel/shovel/glf"

	"verifharness/core"
	"verifharness/simnode"
)

func init() {
	Registry["C08"] = runC08
	Rules["C08"] = "(1) random operation sequences on the REAL segment cache (cache.get with injected fetch failures, max-reads 0..4, up to 9 distinct ranges so that both prune rules fire) and on the REAL head cache (updates in any order incl. repeats and regressions, errors, reads with any floor) compared state-by-state with the Lean model (K); hits of the head cache must be announced pairs and at most max-reads between refreshes (O); (2) the REAL client with caching on against an unchanging simulated chain: sequential and concurrent (2-8 goroutines) mixes of Get on the same and different ranges with different address filters, fetch failures injected, compared per caller with an uncached client (same blocks, transactions and filter-matching logs, no log duplicated or lost) and, sequentially, the number of source fetches with the model's prediction; Latest under arbitrary head announcements must return announced pairs. non-trivial = sequence with a hit, an expiry or a failure; distinct by sequence"
}

func runC08(e *core.Env) error {
	r := e.Rand
	// ---- (1a) segment cache
	for s := 0; s < e.N(150, 3000); s++ {
		rr := r.Fork()
		maxreads := rr.Intn(5)
		vc := jrpc2.NewVerifCache(maxreads)
		ops := []string{fmt.Sprintf("c-init %d", maxreads)}
		outs := []string{"ok"}
		nkeys := 1 + rr.Intn(9)
		hits, fails := 0, 0
		served := map[uint64]int{}
		failedData := map[uint64]bool{}
		segVerdict := "ok"
		for i := 0; i < 10+rr.Intn(40); i++ {
			start := uint64(1 + rr.Intn(nkeys))
			if rr.Chance(1, 3) {
				start = uint64(1 + rr.Intn(2)) // hot keys
			}
			limit := 1 + start%3 // one limit per start: the prune order among equal starts is unspecified
			data := uint64(1000 + i)
			fail := rr.Chance(1, 6)
			ftok := fmt.Sprint(data)
			if fail {
				ftok = "!"
			}
			called := false
			withData := fail && rr.Bool() // a getter that hands back the blocks it rejected together with the error (Client.blocks / headers do)
			bs, err := vc.Get(start, limit, func() ([]eth.Block, error) {
				called = true
				if fail && withData {
					failedData[data] = true
					return []eth.Block{{Header: eth.Header{Number: eth.Uint64(data)}}}, errors.New("validation failed")
				}
				if fail {
					return nil, errors.New("fetch failed")
				}
				return []eth.Block{{Header: eth.Header{Number: eth.Uint64(data)}}}, nil
			})
			var out string
			switch {
			case err != nil:
				out = "err"
				fails++
			case called:
				out = fmt.Sprintf("fetched %d", bs[0].Num())
			default:
				out = fmt.Sprintf("hit %d", bs[0].Num())
				hits++
			}
			ops = append(ops, fmt.Sprintf("c-get %d %d %s", start, limit, ftok))
			outs = append(outs, out+" ["+vc.Dump()+"]")
			// oracle: a fetched segment serves at most max-reads successive reads (the fetching read included)
			switch {
			case strings.HasPrefix(out, "fetched"):
				served[start] = 1
			case strings.HasPrefix(out, "hit"):
				served[start]++
				if served[start] > max(maxreads, 1) && segVerdict == "ok" {
					segVerdict = fmt.Sprintf("range %d served %d successive reads from one fetch with max-reads %d", start, served[start], maxreads)
				}
			}
			if err == nil && len(bs) > 0 && failedData[bs[0].Num()] && segVerdict == "ok" {
				segVerdict = fmt.Sprintf("range %d: blocks of a FAILED fetch were served", start)
			}
			switch {
			case out == "err" && !fail:
				segVerdict = "a failed fetch was served although the source answered"
			}
			if fail && strings.HasPrefix(out, "hit") == false && out != "err" && called {
				segVerdict = "a failed fetch produced data"
			}
		}
		e.Add(core.Case{Op: strings.Join(ops, "\n"), Impl: strings.Join(outs, "\n"), Nontrivial: hits > 0 || fails > 0,
			Tags: []string{"segcache", fmt.Sprintf("maxreads=%d", maxreads), fmt.Sprintf("keys>5=%v", nkeys > 5)}, Key: fmt.Sprintf("seg %d %d", s, e.Seed)})
		e.Add(core.Case{Impl: segVerdict, Spec: "ok", Key: fmt.Sprintf("seg-o %d", s), Tags: []string{"segcache-oracle"}})
	}
	// ---- (1a') concurrent readers of ONE range arriving while its first fetch is still in flight: the read
	// budget still holds (one fetch serves about max-reads reads - a few more are tolerated for the
	// window between the cache lock and the segment lock - never all of them)
	for _, maxreads := range []int{1, 2, 3} {
		vc := jrpc2.NewVerifCache(maxreads)
		const readers = 7
		var mu sync.Mutex
		servedBy := map[uint64]int{}
		fetches := 0
		var wg sync.WaitGroup
		for g := 0; g < readers; g++ {
			wg.Add(1)
			go func() {
				defer wg.Done()
				bs, err := vc.Get(5, 2, func() ([]eth.Block, error) {
					mu.Lock()
					fetches++
					id := uint64(fetches)
					mu.Unlock()
					time.Sleep(25 * time.Millisecond) // a slow source
					return []eth.Block{{Header: eth.Header{Number: eth.Uint64(id)}}}, nil
				})
				if err == nil && len(bs) == 1 {
					mu.Lock()
					servedBy[bs[0].Num()]++
					mu.Unlock()
				}
			}()
			time.Sleep(2 * time.Millisecond)
		}
		wg.Wait()
		verdict := "ok"
		for id, n := range servedBy {
			if n > maxreads+3 { // (readers that pass the budget check before an earlier one has been counted: a few at most)
				verdict = fmt.Sprintf("fetch #%d was served to %d concurrent readers; max reads is %d (%d fetches for %d readers)", id, n, maxreads, fetches, readers)
			}
		}
		e.Add(core.Case{Impl: verdict, Spec: "ok", Key: fmt.Sprintf("seg-concurrent %d", maxreads), Nontrivial: true, Tags: []string{"segcache-concurrent-readers"}})
	}
	// ---- (1b) head cache
	for s := 0; s < e.N(150, 3000); s++ {
		rr := r.Fork()
		maxreads := rr.Intn(5)
		nh := jrpc2.NewVerifNumHash(maxreads)
		ops := []string{fmt.Sprintf("h-init %d", maxreads)}
		outs := []string{"ok"}
		announced := map[string]bool{}
		hitsSince := 0
		verdict := "ok"
		st := func() string {
			n, h, nr, er := nh.VerifState()
			hs := fmt.Sprintf("%x", h)
			return fmt.Sprintf("%d %s %d %v", n, hs, nr, er)
		}
		nh0 := 0
		for i := 0; i < 10+rr.Intn(40); i++ {
			switch rr.Intn(6) {
			case 0, 1:
				n := uint64(1 + rr.Intn(12))
				h := []byte{byte(n + 1), byte(1 + rr.Intn(3))}
				hcopy := append([]byte(nil), h...)
				nh.VerifUpdate(n, hcopy)
				for k := range hcopy {
					hcopy[k] ^= 0xff // the caller reuses its buffer afterwards (the poller decodes into one response struct)
				}
				announced[fmt.Sprintf("%d %x", n, h)] = true
				hitsSince = 0
				ops = append(ops, fmt.Sprintf("h-update %d %x", n, h))
				outs = append(outs, st())
			case 2:
				if rr.Chance(1, 3) {
					nh.VerifError(errors.New("x"))
					hitsSince = 0
					ops = append(ops, "h-error")
					outs = append(outs, st())
				}
			default:
				n := uint64(rr.Intn(14))
				num, h, ok := nh.VerifGet(n)
				o := "miss"
				if ok {
					nh0++
					hh := strings.TrimRight(fmt.Sprintf("%x", h), "0") // get returns a 32-byte copy
					full := fmt.Sprintf("%x", h)
					_ = full
					o = fmt.Sprintf("hit %d %s", num, hh)
					hitsSince++
					found := false
					for a := range announced {
						if strings.HasPrefix(a, fmt.Sprintf("%d ", num)) && strings.HasPrefix(fmt.Sprintf("%x", h), strings.SplitN(a, " ", 2)[1]) {
							found = true
						}
					}
					switch {
					case !found:
						verdict = fmt.Sprintf("hit returned (%d, %x) which was never announced", num, h)
					case hitsSince > maxreads:
						verdict = fmt.Sprintf("%d successive hits with max-reads %d", hitsSince, maxreads)
					case n == 0 || num < n:
						verdict = fmt.Sprintf("hit for floor %d with cached head %d", n, num)
					}
				} else {
					hitsSince = 0
				}
				ops = append(ops, fmt.Sprintf("h-get %d", n))
				outs = append(outs, o+" | "+st())
			}
		}
		// the model prints the hash as given; the implementation's hit pads to 32 bytes: compare the unpadded prefix
		e.Add(core.Case{Op: strings.Join(ops, "\n"), Impl: strings.Join(outs, "\n"), Nontrivial: nh0 > 0, Tags: []string{"headcache", fmt.Sprintf("maxreads=%d", maxreads)}, Key: fmt.Sprintf("head %d %d", s, e.Seed)})
		e.Add(core.Case{Impl: verdict, Spec: "ok", Key: fmt.Sprintf("head-o %d", s), Tags: []string{"headcache-oracle"}})
	}
	// ---- (1c) eth.Logs.Add: attaches in any order with any repeats (what several callers with different
	// filters do to one transaction of a shared cached block) against the model's addLog and the set oracle
	for s := 0; s < e.N(300, 6000); s++ {
		rr := r.Fork()
		var ls eth.Logs
		var initIdx, addIdx []string
		seen := map[uint64]bool{}
		nInit := rr.Intn(4)
		span := uint64(4 + rr.Intn(9))
		mkLog := func(i uint64) *eth.Log {
			return &eth.Log{Idx: eth.Uint64(i), Address: eth.Bytes{byte(i), 0xaa}, Topics: []eth.Bytes{{byte(i)}}, Data: eth.Bytes{byte(i), byte(i >> 8)}}
		}
		for len(initIdx) < nInit {
			i := uint64(rr.Intn(int(span)))
			if !seen[i] {
				seen[i] = true
				ls.Add(mkLog(i))
				initIdx = append(initIdx, fmt.Sprint(i))
			}
		}
		want := map[uint64]bool{}
		for k := range seen {
			want[k] = true
		}
		lower := false
		for i := 0; i < 1+rr.Intn(10); i++ {
			x := uint64(rr.Intn(int(span)))
			if len(ls) > 0 && x < uint64(ls[len(ls)-1].Idx) && !want[x] {
				lower = true // a new log with a smaller index than the last one held
			}
			ls.Add(mkLog(x))
			want[x] = true
			addIdx = append(addIdx, fmt.Sprint(x))
		}
		var got []string
		verdict := "ok"
		have := map[uint64]bool{}
		for _, l := range ls {
			got = append(got, fmt.Sprint(uint64(l.Idx)))
			if have[uint64(l.Idx)] {
				verdict = fmt.Sprintf("log index %d held twice", uint64(l.Idx))
			}
			have[uint64(l.Idx)] = true
			if len(l.Data) != 2 || l.Data[0] != byte(l.Idx) || len(l.Address) != 2 || l.Address[0] != byte(l.Idx) || len(l.Topics) != 1 {
				verdict = fmt.Sprintf("log %d does not carry its own address/topics/data", uint64(l.Idx))
			}
		}
		for k := range want {
			if !have[k] && verdict == "ok" {
				verdict = fmt.Sprintf("log index %d was attached but is not held (lost)", k)
			}
		}
		lj := func(x []string) string {
			if len(x) == 0 {
				return "_"
			}
			return strings.Join(x, ",")
		}
		e.Add(core.Case{Op: fmt.Sprintf("logsadd %s %s", lj(initIdx), lj(addIdx)), Impl: "ok " + strings.Join(got, ","), Nontrivial: len(addIdx) > 1,
			Tags: []string{"logs-add", fmt.Sprintf("lower-index-later=%v", lower)}})
		e.Add(core.Case{Impl: verdict, Spec: "ok", Key: fmt.Sprintf("logsadd-o %s %s", lj(initIdx), lj(addIdx)), Nontrivial: lower, Tags: []string{"logs-add-oracle"},
			Detail: map[string]any{"held": initIdx, "attached": addIdx, "result": got}})
	}
	// ---- (2) the real caching client vs an uncached client on an unchanging chain
	chain := simnode.NewChain(12, simnode.GenOpts{Salt: 5 + e.Seed%4})
	node := simnode.NewNode(chain)
	defer node.Close()
	ctx := context.Background()
	addrs := map[string]bool{}
	for _, b := range chain.Blocks {
		for _, t := range b.Txs {
			for _, l := range t.Logs {
				addrs[fmt.Sprintf("0x%x", l.Addr)] = true
			}
		}
	}
	var addrList []string
	for a := range addrs {
		addrList = append(addrList, a)
	}
	sort.Strings(addrList)
	digestFor := func(bs []eth.Block, flt *glf.Filter) string {
		// blocks, txs and the logs matching the caller's own address filter
		want := map[string]bool{}
		for _, a := range flt.Addresses() {
			want[a] = true
		}
		var out []string
		for i := range bs {
			bs[i].Lock()
			var txs []string
			for j := range bs[i].Txs {
				t := &bs[i].Txs[j]
				var ls []string
				for _, l := range t.Logs {
					if !(flt.UseLogs || flt.UseReceipts) {
						break // this caller's plan has no logs: logs other callers attached to the shared block are not its data
					}
					if len(want) == 0 || want[fmt.Sprintf("0x%x", []byte(l.Address))] {
						ls = append(ls, fmt.Sprintf("%d:%x", uint64(l.Idx), []byte(l.Data)))
					}
				}
				if len(ls) > 0 || flt.UseBlocks {
					sort.Strings(ls)
					txs = append(txs, fmt.Sprintf("%s[%s]", pad12(fmt.Sprint(uint64(t.Idx))), strings.Join(ls, ",")))
				}
			}
			sort.Strings(txs)
			out = append(out, fmt.Sprintf("%d/%x/%s", bs[i].Num(), bs[i].Hash(), strings.Join(txs, ";")))
			bs[i].Unlock()
		}
		return strings.Join(out, "|")
	}
	// ---- (2a) different filters on the same cached range whose logs interleave by index inside ONE
	// transaction (A: indexes 0,2 - B: indexes 1,3 of every transaction), both request orders
	// second chain shape: the filters' logs sit in DIFFERENT transactions of a block, partly overlapping (tx 0: B only,
	// tx 1: both, tx 2: A only, tx 3: both, tx 4: B only): a later request adds transactions in front of, between
	// and behind the ones an earlier request attached
	for shape := 0; shape < 2; shape++ {
		addrA, addrB := simnode.Derive("ilvA")[:20], simnode.Derive("ilvB")[:20]
		ch := simnode.NewChain(6, simnode.GenOpts{Salt: 77 + e.Seed%3, TxsPerBlock: func(uint64) int { return 2 + 3*shape }, MakeTx: func(salt, num, idx uint64, tx *simnode.Tx) {
			simnode.DefaultMakeTx(salt, num, idx, tx)
			tx.Logs = nil
			for j := uint64(0); j < 4; j++ {
				a := addrA
				if j%2 == 1 {
					a = addrB
				}
				if shape == 1 {
					switch idx {
					case 0, 4:
						a = addrB
					case 2:
						a = addrA
					}
				}
				tx.Logs = append(tx.Logs, simnode.Log{Idx: 4*idx + j, Addr: a, Topics: [][]byte{simnode.Derive("t", salt, num, idx, j)}, Data: simnode.Derive("d", salt, num, idx, j)})
			}
		}})
		nd := simnode.NewNode(ch)
		fA, fB := fmt.Sprintf("0x%x", addrA), fmt.Sprintf("0x%x", addrB)
		for _, order := range [][]string{{fA, fB}, {fB, fA}, {fA, fB, fA}, {fB, fB, fA}} {
			for _, fields := range [][]string{{"block_time", "log_idx"}, {"tx_input", "log_idx"}} {
				cached := jrpc2.New(nd.URL()).WithMaxReads(10).WithPollDuration(time.Hour)
				plain := jrpc2.New(nd.URL() + "/nocache")
				verdict := "ok"
				for _, a := range order {
					flt := glf.New(fields, []string{a}, nil)
					cb, cerr := cached.Get(ctx, nd.URL(), flt, 1, 3)
					pb, perr := plain.Get(ctx, nd.URL()+"/nocache", flt, 1, 3)
					if cerr != nil || perr != nil {
						verdict = fmt.Sprintf("unexpected error %v %v", cerr, perr)
						break
					}
					if got, want := digestFor(cb, flt), digestFor(pb, flt); got != want && verdict == "ok" {
						verdict = fmt.Sprintf("filter %s after %v: cached client returned %s, uncached %s", a, order, trunc2(got), trunc2(want))
					}
				}
				e.Add(core.Case{Impl: verdict, Spec: "ok", Key: fmt.Sprintf("interleaved %d %v %v", shape, order, fields), Nontrivial: true, Tags: []string{"client-interleaved-filters", fmt.Sprintf("shape=%d", shape)}})
			}
		}
		nd.Close()
	}
	for s := 0; s < e.N(25, 300); s++ {
		rr := r.Fork()
		maxreads := 1 + rr.Intn(4)
		cached := jrpc2.New(node.URL()).WithMaxReads(maxreads).WithPollDuration(time.Hour)
		plain := jrpc2.New(node.URL() + "/nocache")
		type req struct {
			flt          glf.Filter
			start, limit uint64
		}
		mk := func() req {
			fields := core.Pick(rr, [][]string{{"block_time", "log_idx"}, {"tx_input", "log_idx"}, {"block_time"}})
			var as []string
			if rr.Bool() {
				as = []string{core.Pick(rr, addrList)}
				if rr.Bool() {
					as = append(as, core.Pick(rr, addrList))
				}
			}
			st := uint64(1 + rr.Intn(3))
			return req{*glf.New(fields, as, nil), st, uint64(1 + rr.Intn(3))}
		}
		var reqs []req
		for i := 0; i < 3+rr.Intn(4); i++ {
			reqs = append(reqs, mk())
		}
		if rr.Bool() { // the same range with different filters
			q := reqs[0]
			q.flt = *glf.New([]string{"block_time", "log_idx"}, []string{core.Pick(rr, addrList)}, nil)
			reqs = append(reqs, q)
		}
		conc := 1
		if s%2 == 1 {
			conc = 2 + rr.Intn(7)
		}
		failEvery := 0
		if rr.Chance(1, 3) {
			failEvery = 3 + rr.Intn(4)
		}
		n := 0
		var nmu sync.Mutex
		node.SetAfter(func(ex *simnode.Exchange) {
			nmu.Lock()
			defer nmu.Unlock()
			n++
			if failEvery > 0 && n%failEvery == 0 {
				ex.Status = 500
			}
		})
		verdict := "ok"
		var vmu sync.Mutex
		var wg sync.WaitGroup
		work := func(g int) {
			defer wg.Done()
			gr := core.NewRand(uint64(g)*7919 + e.Seed + uint64(s))
			for k := 0; k < 6; k++ {
				q := reqs[gr.Intn(len(reqs))]
				out := core.Protect(func() string {
					bs, err := cached.Get(ctx, node.URL(), &q.flt, q.start, q.limit)
					if err != nil {
						return "err"
					}
					return digestFor(bs, &q.flt)
				})
				if out == "err" {
					continue // a failed fetch is reported, never served
				}
				vmu.Lock()
				node.SetAfter(nil)
				pb, perr := plain.Get(ctx, node.URL()+"/nocache", &q.flt, q.start, q.limit)
				if failEvery > 0 {
					node.SetAfter(func(ex *simnode.Exchange) {
						nmu.Lock()
						defer nmu.Unlock()
						n++
						if n%failEvery == 0 {
							ex.Status = 500
						}
					})
				}
				if perr == nil {
					if want := digestFor(pb, &q.flt); out != want && verdict == "ok" {
						verdict = fmt.Sprintf("cached client returned %s, uncached %s (range %d+%d, addresses %v)", trunc2(out), trunc2(want), q.start, q.limit, q.flt.Addresses())
					}
				}
				vmu.Unlock()
			}
		}
		for g := 0; g < conc; g++ {
			wg.Add(1)
			go work(g)
		}
		wg.Wait()
		node.SetAfter(nil)
		e.Add(core.Case{Impl: verdict, Spec: "ok", Key: fmt.Sprintf("client %d %d", s, e.Seed), Nontrivial: true,
			Tags: []string{"client-vs-uncached", fmt.Sprintf("goroutines=%d", conc), fmt.Sprintf("failures=%v", failEvery > 0), fmt.Sprintf("maxreads=%d", maxreads)}})
	}
	// sequential: number of source fetches for repeated identical requests = model's prediction
	for _, maxreads := range []int{1, 2, 3, 5} {
		cached := jrpc2.New(node.URL()).WithMaxReads(maxreads).WithPollDuration(time.Hour)
		flt := glf.New([]string{"block_time"}, nil, nil)
		ops := []string{fmt.Sprintf("c-init %d", maxreads)}
		var outs []string
		outs = append(outs, "ok")
		for i := 0; i < 12; i++ {
			st := uint64(1 + i%2)
			fail := i%5 == 4
			node.ResetLog()
			if fail {
				node.SetAfter(func(ex *simnode.Exchange) { ex.Status = 500 })
			}
			_, err := cached.Get(ctx, node.URL(), flt, st, 2)
			node.SetAfter(nil)
			fetched := len(node.Log()) > 0
			o := "hit"
			switch {
			case err != nil:
				o = "err"
			case fetched:
				o = "fetched"
			}
			ftok := fmt.Sprint(st)
			if fail {
				ftok = "!"
			}
			ops = append(ops, fmt.Sprintf("c-getc %d 2 %s", st, ftok))
			outs = append(outs, o)
		}
		// compare only the hit/fetched/err class with the model (strip the model's payload)
		e.Add(core.Case{Op: strings.Join(ops, "\n"), Impl: strings.Join(outs, "\n"), Nontrivial: true, Tags: []string{"client-fetch-count"}, Key: fmt.Sprintf("fc %d", maxreads), Detail: "class-only"})
	}
	// Latest: announcements in arbitrary order incl. regressions; results must be announced pairs. Odd
	// scenarios: the head arrives over the WEBSOCKET subscription (eth_subscribe newHeads) instead of the poller
	for s := 0; s < e.N(10, 100); s++ {
		rr := r.Fork()
		c2 := simnode.NewChain(8, simnode.GenOpts{Salt: uint64(50 + s)})
		n2 := simnode.NewNode(c2)
		cl := jrpc2.New(n2.URL()).WithMaxReads(1 + rr.Intn(3)).WithPollDuration(time.Hour)
		ws := s%2 == 1
		if ws {
			cl = cl.WithWSURL(n2.WSURL())
		}
		announced := map[string]bool{}
		n2.SetAfter(func(ex *simnode.Exchange) {
			for _, resp := range ex.Responses {
				if m, ok := resp["result"].(map[string]any); ok {
					announced[fmt.Sprintf("%d %s", hexn(m["number"]), hexs(m["hash"]))] = true
				}
			}
		})
		verdict := "ok"
		nLatest := 0
		for i := 0; i < 25; i++ {
			switch rr.Intn(4) {
			case 0:
				n2.With(func(c *simnode.Chain) { c.Grow(1+rr.Intn(2), simnode.GenOpts{Salt: uint64(900 + i)}) })
			case 1:
				n2.With(func(c *simnode.Chain) {
					if len(c.Blocks) > 4 {
						c.Reorg(1+rr.Intn(2), rr.Intn(3), simnode.GenOpts{Salt: uint64(700 + i)})
					}
				})
			default:
				num, h, err := cl.Latest(ctx, n2.URL(), uint64(rr.Intn(10)))
				nLatest++
				if ws && n2.Subscribers() == 0 {
					// the listener is started by the first Latest and dials in the background: give it a moment
					for w := 0; w < 100 && n2.Subscribers() == 0; w++ {
						time.Sleep(3 * time.Millisecond)
					}
				}
				for _, a := range n2.WSAnnounced() {
					announced[a] = true
				}
				if err == nil && !announced[fmt.Sprintf("%d %x", num, h)] {
					verdict = fmt.Sprintf("Latest returned (%d, %x) which the source never announced", num, h)
				}
			}
			if ws && n2.Subscribers() > 0 {
				// push what a node pushes: the new head after a change; sometimes an OLDER head again (a lagging
				// backend behind a load balancer), sometimes the same height with the hash of the other fork
				switch rr.Intn(5) {
				case 0:
					var b simnode.Block
					n2.With(func(c *simnode.Chain) { b = c.Blocks[rr.Intn(len(c.Blocks))] })
					n2.Announce(b.Num, b.Hash)
				case 1:
					var b simnode.Block
					n2.With(func(c *simnode.Chain) { b = c.Blocks[len(c.Blocks)-1] })
					n2.Announce(b.Num, simnode.Derive("otherfork", b.Num, uint64(i)))
				default:
					n2.AnnounceHead()
				}
				time.Sleep(2 * time.Millisecond)
			}
		}
		subs := n2.Subscribers()
		n2.Close()
		if ws && subs == 0 && nLatest > 0 {
			verdict = "the client never subscribed to newHeads over the websocket"
		}
		e.Add(core.Case{Impl: verdict, Spec: "ok", Key: fmt.Sprintf("latest %d", s), Nontrivial: true, Tags: []string{"client-latest", fmt.Sprintf("websocket=%v", ws)}})
	}
	return nil
}

func trunc2(s string) string {
	if len(s) > 200 {
		return s[:200] + "…"
	}
	return s
}
