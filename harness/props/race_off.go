//go:build !race

package props

const raceEnabled = false
