// Package simnode is a deterministic, scriptable, simulated Ethereum
// JSON-RPC node on top of an in-memory forkable chain. It exists for
// differential testing of github.com/indexsupply/shovel/jrpc2.
package simnode

import (
	"encoding/binary"
	"fmt"

	"github.com/holiman/uint256"
	"github.com/indexsupply/shovel/eth"
)

type Log struct {
	Idx    uint64
	Addr   []byte   // 20
	Topics [][]byte // each 32
	Data   []byte
}

type Trace struct {
	From, To []byte // 20
	Value    uint256.Int
	CallType string
}

type Tx struct {
	Idx      uint64
	Hash     []byte // 32
	From, To []byte // 20; To may be nil (contract creation)
	Input    []byte

	Value, GasPrice, MaxPriorityFeePerGas, MaxFeePerGas, EffectiveGasPrice uint256.Int

	Type                     byte
	Nonce, GasLimit, GasUsed uint64
	Status                   byte
	ContractAddress          []byte // 20 or nil
	Logs                     []Log
	Traces                   []Trace
}

type Block struct {
	Num          uint64
	Hash, Parent []byte // 32
	Time         uint64
	LogsBloom    []byte // 256
	Txs          []Tx
}

// Chain invariant: Blocks[i].Num == i, Blocks[i].Parent == Blocks[i-1].Hash,
// genesis parent is 32 zero bytes.
type Chain struct{ Blocks []Block }

// Head returns the last block, nil for an empty chain.
func (c *Chain) Head() *Block {
	if len(c.Blocks) == 0 {
		return nil
	}
	return &c.Blocks[len(c.Blocks)-1]
}

func cp(b []byte) []byte {
	if b == nil {
		return nil
	}
	return append([]byte{}, b...)
}

// Clone returns a deep copy sharing no memory with c.
func (c *Chain) Clone() *Chain {
	out := &Chain{Blocks: make([]Block, len(c.Blocks))}
	for i, b := range c.Blocks {
		nb := b
		nb.Hash, nb.Parent, nb.LogsBloom = cp(b.Hash), cp(b.Parent), cp(b.LogsBloom)
		nb.Txs = make([]Tx, len(b.Txs))
		for j, t := range b.Txs {
			nt := t
			nt.Hash, nt.From, nt.To, nt.Input = cp(t.Hash), cp(t.From), cp(t.To), cp(t.Input)
			nt.ContractAddress = cp(t.ContractAddress)
			nt.Logs = make([]Log, len(t.Logs))
			for k, l := range t.Logs {
				nl := Log{Idx: l.Idx, Addr: cp(l.Addr), Data: cp(l.Data), Topics: make([][]byte, len(l.Topics))}
				for m := range l.Topics {
					nl.Topics[m] = cp(l.Topics[m])
				}
				nt.Logs[k] = nl
			}
			nt.Traces = make([]Trace, len(t.Traces))
			for k, tr := range t.Traces {
				nt.Traces[k] = Trace{From: cp(tr.From), To: cp(tr.To), Value: tr.Value, CallType: tr.CallType}
			}
			nb.Txs[j] = nt
		}
		out.Blocks[i] = nb
	}
	return out
}

// GenOpts parametrises the deterministic generator.
type GenOpts struct {
	Salt        uint64
	TxsPerBlock func(num uint64) int                // default: 2
	MakeTx      func(salt, num, idx uint64, tx *Tx) // default: DefaultMakeTx. tx.Idx and tx.Hash are pre-set.
}

// Derive returns Keccak("<tag>|<a0>|<a1>|...") — the single source of
// pseudo-randomness of the generator.
func Derive(tag string, a ...uint64) []byte {
	s := tag
	for _, x := range a {
		s += fmt.Sprintf("|%d", x)
	}
	return eth.Keccak([]byte(s))
}

// BlockHash = Keccak("blk|salt|num|" + parent). Injective over (salt, num) and
// additionally commits to the ancestry like a real block hash does.
func BlockHash(salt, num uint64, parent []byte) []byte {
	return eth.Keccak(append([]byte(fmt.Sprintf("blk|%d|%d|", salt, num)), parent...))
}

// TxHash = Keccak("tx|salt|num|idx").
func TxHash(salt, num, idx uint64) []byte { return Derive("tx", salt, num, idx) }

func u64(tag string, a ...uint64) uint64 { // non-zero, < 2^48
	return binary.BigEndian.Uint64(Derive(tag, a...))>>16 | 1
}

func u256(tag string, a ...uint64) uint256.Int { // non-zero, wider than 64 bits
	var z uint256.Int
	z.SetBytes(Derive(tag, a...)[:20])
	z[2] |= 1 << 8 // bit 136: never zero, never fits a uint64
	return z
}

// DefaultMakeTx fills every field with a distinct, non-zero, deterministic
// value: 2 logs (idx 2*txidx, 2*txidx+1; 2 resp. 3 topics) and 2 traces.
func DefaultMakeTx(salt, num, idx uint64, tx *Tx) {
	tx.From = Derive("from", salt, num, idx)[:20]
	tx.To = Derive("to", salt, num, idx)[:20]
	tx.Input = append(Derive("input", salt, num, idx)[:4], Derive("input-arg", salt, num, idx)...)
	tx.Value = u256("value", salt, num, idx)
	tx.GasPrice = u256("gasPrice", salt, num, idx)
	tx.MaxPriorityFeePerGas = u256("maxPrio", salt, num, idx)
	tx.MaxFeePerGas = u256("maxFee", salt, num, idx)
	tx.EffectiveGasPrice = u256("effGasPrice", salt, num, idx)
	tx.Type = byte(1 + (num+idx)%2)
	tx.Nonce = u64("nonce", salt, num, idx)
	tx.GasLimit = u64("gasLimit", salt, num, idx)
	tx.GasUsed = u64("gasUsed", salt, num, idx)
	tx.Status = 1
	tx.ContractAddress = Derive("contract", salt, num, idx)[:20]
	calls := []string{"call", "delegatecall", "staticcall", "callcode"}
	for j := uint64(0); j < 2; j++ {
		l := Log{Idx: 2*idx + j, Addr: Derive("logaddr", salt, num, idx, j)[:20]}
		for k := uint64(0); k < 2+j%3; k++ {
			l.Topics = append(l.Topics, Derive("topic", salt, num, idx, j, k))
		}
		for k := uint64(0); k <= j%2; k++ {
			l.Data = append(l.Data, Derive("data", salt, num, idx, j, k)...)
		}
		tx.Logs = append(tx.Logs, l)
		tx.Traces = append(tx.Traces, Trace{
			From:     Derive("trfrom", salt, num, idx, j)[:20],
			To:       Derive("trto", salt, num, idx, j)[:20],
			Value:    u256("trvalue", salt, num, idx, j),
			CallType: calls[j%4],
		})
	}
}

// NewChain generates blocks 0..n-1.
func NewChain(n int, o GenOpts) *Chain {
	c := &Chain{}
	c.Grow(n, o)
	return c
}

// Grow appends k blocks generated with o.
func (c *Chain) Grow(k int, o GenOpts) {
	for ; k > 0; k-- {
		num, parent := uint64(len(c.Blocks)), make([]byte, 32)
		if h := c.Head(); h != nil {
			parent = cp(h.Hash)
		}
		b := Block{
			Num:    num,
			Hash:   BlockHash(o.Salt, num, parent),
			Parent: parent,
			Time:   1_700_000_000 + 12*num + o.Salt%12, // strictly increasing along any fork mix
		}
		for i := uint64(0); i < 8; i++ {
			b.LogsBloom = append(b.LogsBloom, Derive("bloom", o.Salt, num, i)...)
		}
		ntx := 2
		if o.TxsPerBlock != nil {
			ntx = o.TxsPerBlock(num)
		}
		for i := uint64(0); i < uint64(ntx); i++ {
			tx := Tx{Idx: i, Hash: TxHash(o.Salt, num, i)}
			if o.MakeTx != nil {
				o.MakeTx(o.Salt, num, i, &tx)
			} else {
				DefaultMakeTx(o.Salt, num, i, &tx)
			}
			b.Txs = append(b.Txs, tx)
		}
		c.Blocks = append(c.Blocks, b)
	}
}

// Reorg drops the top depth blocks (clamped to the chain length) and appends
// newLen blocks generated with o; the caller passes a fresh o.Salt.
func (c *Chain) Reorg(depth, newLen int, o GenOpts) {
	depth = max(0, min(depth, len(c.Blocks)))
	c.Blocks = c.Blocks[: len(c.Blocks)-depth : len(c.Blocks)-depth]
	c.Grow(newLen, o)
}
