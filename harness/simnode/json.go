package simnode

import (
	"bytes"
	"encoding/hex"
	"sort"
	"strconv"
	"strings"
	"sync/atomic"

	"github.com/holiman/uint256"
)

// UpperDigits: while set, every hex string the node writes uses the digits A-F (some nodes and proxies do);
// the values are the same.
var UpperDigits atomic.Bool

// Hex encodes data: 0x-prefixed ("0x" for empty), lower-case unless UpperDigits.
func Hex(b []byte) string {
	if UpperDigits.Load() {
		return "0x" + strings.ToUpper(hex.EncodeToString(b))
	}
	return "0x" + hex.EncodeToString(b)
}

// HexU encodes a quantity: no leading zeros, "0x0" for zero.
func HexU(n uint64) string {
	if UpperDigits.Load() {
		return "0x" + strings.ToUpper(strconv.FormatUint(n, 16))
	}
	return "0x" + strconv.FormatUint(n, 16)
}

func hexOrNull(b []byte) any {
	if b == nil {
		return nil
	}
	return Hex(b)
}

func hex256(tag string, h []byte) string { // quantity derived from a hash (tx signature r, s)
	var z uint256.Int
	z.SetBytes(Derive(tag + "|" + hex.EncodeToString(h)))
	return z.Hex()
}

// BlockJSON is the eth_getBlockByNumber result for b.
func BlockJSON(b *Block, full bool) map[string]any {
	txs := []any{}
	for i := range b.Txs {
		t := &b.Txs[i]
		if !full {
			txs = append(txs, Hex(t.Hash))
			continue
		}
		txs = append(txs, map[string]any{
			"blockHash":            Hex(b.Hash),
			"blockNumber":          HexU(b.Num),
			"transactionIndex":     HexU(t.Idx),
			"hash":                 Hex(t.Hash),
			"type":                 HexU(uint64(t.Type)),
			"chainId":              "0x1",
			"nonce":                HexU(t.Nonce),
			"gasPrice":             t.GasPrice.Hex(),
			"gas":                  HexU(t.GasLimit),
			"from":                 Hex(t.From),
			"to":                   hexOrNull(t.To),
			"value":                t.Value.Hex(),
			"input":                Hex(t.Input),
			"v":                    "0x1",
			"r":                    hex256("r", t.Hash),
			"s":                    hex256("s", t.Hash),
			"maxPriorityFeePerGas": t.MaxPriorityFeePerGas.Hex(),
			"maxFeePerGas":         t.MaxFeePerGas.Hex(),
		})
	}
	return map[string]any{
		"number":       HexU(b.Num),
		"hash":         Hex(b.Hash),
		"parentHash":   Hex(b.Parent),
		"logsBloom":    Hex(b.LogsBloom),
		"timestamp":    HexU(b.Time),
		"transactions": txs,
	}
}

func logJSON(b *Block, t *Tx, l *Log) map[string]any {
	topics := []any{}
	for _, tp := range l.Topics {
		topics = append(topics, Hex(tp))
	}
	return map[string]any{
		"logIndex":         HexU(l.Idx),
		"address":          Hex(l.Addr),
		"topics":           topics,
		"data":             Hex(l.Data),
		"blockHash":        Hex(b.Hash),
		"blockNumber":      HexU(b.Num),
		"transactionHash":  Hex(t.Hash),
		"transactionIndex": HexU(t.Idx),
		"removed":          false,
	}
}

// ReceiptsJSON is the eth_getBlockReceipts result for b.
func ReceiptsJSON(b *Block) []any {
	out := []any{}
	for i := range b.Txs {
		t := &b.Txs[i]
		logs := []any{}
		for j := range t.Logs {
			logs = append(logs, logJSON(b, t, &t.Logs[j]))
		}
		out = append(out, map[string]any{
			"blockHash":         Hex(b.Hash),
			"blockNumber":       HexU(b.Num),
			"transactionHash":   Hex(t.Hash),
			"transactionIndex":  HexU(t.Idx),
			"type":              HexU(uint64(t.Type)),
			"from":              Hex(t.From),
			"to":                hexOrNull(t.To),
			"status":            HexU(uint64(t.Status)),
			"gasUsed":           HexU(t.GasUsed),
			"effectiveGasPrice": t.EffectiveGasPrice.Hex(),
			"contractAddress":   hexOrNull(t.ContractAddress),
			"logs":              logs,
		})
	}
	return out
}

// MatchLog implements the standard eth_getLogs filter: addrs is an OR list
// (empty = any); topics[i] is an OR list for position i (empty = wildcard);
// the log needs at least len(topics) topics.
func MatchLog(l *Log, addrs [][]byte, topics [][][]byte) bool {
	in := func(x []byte, set [][]byte) bool {
		for _, s := range set {
			if bytes.Equal(x, s) {
				return true
			}
		}
		return len(set) == 0
	}
	if !in(l.Addr, addrs) || len(l.Topics) < len(topics) {
		return false
	}
	for i := range topics {
		if !in(l.Topics[i], topics[i]) {
			return false
		}
	}
	return true
}

// LogsJSON is the eth_getLogs result for blocks [from, to] (clipped to the
// head), in (block, logIndex) order. Never nil.
func LogsJSON(c *Chain, from, to uint64, addrs [][]byte, topics [][][]byte) []any {
	out := []any{}
	for n := from; n <= to && n < uint64(len(c.Blocks)); n++ {
		var (
			b    = &c.Blocks[n]
			idxs []uint64
			objs []any
		)
		for i := range b.Txs {
			for j := range b.Txs[i].Logs {
				if l := &b.Txs[i].Logs[j]; MatchLog(l, addrs, topics) {
					idxs, objs = append(idxs, l.Idx), append(objs, logJSON(b, &b.Txs[i], l))
				}
			}
		}
		ord := make([]int, len(objs))
		for i := range ord {
			ord[i] = i
		}
		sort.SliceStable(ord, func(i, j int) bool { return idxs[ord[i]] < idxs[ord[j]] })
		for _, i := range ord {
			out = append(out, objs[i])
		}
	}
	return out
}

// TracesJSON is the trace_block result for b (tx order, then trace order).
// blockNumber and transactionPosition are JSON numbers, as in erigon/nethermind.
func TracesJSON(b *Block) []any {
	out := []any{}
	for i := range b.Txs {
		t := &b.Txs[i]
		for _, tr := range t.Traces {
			out = append(out, map[string]any{
				"blockHash":           Hex(b.Hash),
				"blockNumber":         b.Num,
				"transactionHash":     Hex(t.Hash),
				"transactionPosition": t.Idx,
				"type":                "call",
				"action": map[string]any{
					"from":     Hex(tr.From),
					"to":       Hex(tr.To),
					"value":    tr.Value.Hex(),
					"callType": tr.CallType,
				},
			})
		}
	}
	return out
}
