package simnode

import (
	"bytes"
	"context"
	"encoding/hex"
	"encoding/json"
	"fmt"
	"io"
	"net/http"
	"net/http/httptest"
	"strconv"
	"strings"
	"sync"
	"time"

	"nhooyr.io/websocket"
	"nhooyr.io/websocket/wsjson"
)

type Request struct {
	ID     json.RawMessage
	Method string
	Params []json.RawMessage
}

// Exchange is one HTTP request (single call or batch) and its reply.
type Exchange struct {
	Seq       int // global sequence number of the HTTP request
	Batch     bool
	Requests  []Request
	Version   int              // chain version that served the whole exchange
	Responses []map[string]any // one JSON-RPC response object per request, in request order
	Status    int              // HTTP status, default 200
	RawBody   []byte           // if non-nil sent verbatim instead of marshalling Responses
	Drop      bool             // close the TCP connection without responding
}

type Node struct {
	mu            sync.Mutex
	srv           *httptest.Server
	chain         *Chain
	version, seq  int
	before, after func(*Exchange)
	log           []Exchange
	subs          []*websocket.Conn // eth_subscribe("newHeads") subscribers (path /ws)
	wsAnnounced   []string          // "<number> <hash hex>" of every head pushed to the subscribers
	lag           map[string]int    // URL path -> how many blocks the backend answering that path is behind
}

// SetLag makes the backend behind one URL path answer from a chain that ends `blocks` blocks below the
// node's head (a lagging member of a load-balanced pool): its latest block, its headers and its logs stop there.
func (n *Node) SetLag(path string, blocks int) {
	n.mu.Lock()
	defer n.mu.Unlock()
	if n.lag == nil {
		n.lag = map[string]int{}
	}
	n.lag[path] = blocks
}

// WSURL is the websocket endpoint: eth_subscribe newHeads, then one notification per Announce.
func (n *Node) WSURL() string { return "ws" + strings.TrimPrefix(n.srv.URL, "http") + "/ws" }

func (n *Node) serveWS(w http.ResponseWriter, r *http.Request) {
	c, err := websocket.Accept(w, r, nil)
	if err != nil {
		return
	}
	ctx := context.Background()
	var req struct {
		ID json.RawMessage `json:"id"`
	}
	if err := wsjson.Read(ctx, c, &req); err != nil {
		c.Close(websocket.StatusNormalClosure, "")
		return
	}
	wsjson.Write(ctx, c, map[string]any{"jsonrpc": "2.0", "id": req.ID, "result": "0x1"})
	n.mu.Lock()
	n.subs = append(n.subs, c)
	n.mu.Unlock()
	for {
		if _, _, err := c.Read(ctx); err != nil {
			return
		}
	}
}

// Announce pushes a newHeads notification carrying (num, hash) to every subscriber.
func (n *Node) Announce(num uint64, hash []byte) {
	n.mu.Lock()
	subs := append([]*websocket.Conn(nil), n.subs...)
	n.wsAnnounced = append(n.wsAnnounced, fmt.Sprintf("%d %x", num, hash))
	n.mu.Unlock()
	msg := map[string]any{"jsonrpc": "2.0", "method": "eth_subscription", "params": map[string]any{"subscription": "0x1",
		"result": map[string]any{"number": HexU(num), "hash": "0x" + hex.EncodeToString(hash)}}}
	for _, c := range subs {
		ctx, cancel := context.WithTimeout(context.Background(), time.Second)
		wsjson.Write(ctx, c, msg)
		cancel()
	}
}

// AnnounceHead pushes the chain's current head.
func (n *Node) AnnounceHead() {
	n.mu.Lock()
	b := n.chain.Blocks[len(n.chain.Blocks)-1]
	n.mu.Unlock()
	n.Announce(b.Num, b.Hash)
}

// WSAnnounced lists every pair pushed so far; Subscribers the number of live subscriptions.
func (n *Node) WSAnnounced() []string {
	n.mu.Lock()
	defer n.mu.Unlock()
	return append([]string(nil), n.wsAnnounced...)
}

func (n *Node) Subscribers() int { n.mu.Lock(); defer n.mu.Unlock(); return len(n.subs) }

// NewNode starts an HTTP server (any path, POST) serving c.
func NewNode(c *Chain) *Node {
	n := &Node{chain: c}
	n.srv = httptest.NewServer(http.HandlerFunc(n.serve))
	return n
}

func (n *Node) URL() string { return n.srv.URL }

// Close shuts the server down; later requests fail at the TCP level.
func (n *Node) Close() { n.srv.CloseClientConnections(); n.srv.Close() }

// Chain returns the live chain. Only touch it inside With or a Before/After hook.
func (n *Node) Chain() *Chain { return n.chain }

// With runs f under the node mutex and bumps Version. Must not be called from a hook.
func (n *Node) With(f func(c *Chain)) {
	n.mu.Lock()
	defer n.mu.Unlock()
	f(n.chain)
	n.version++
}

func (n *Node) SetChain(c *Chain) { n.With(func(*Chain) { n.chain = c }) }

func (n *Node) Version() int { n.mu.Lock(); defer n.mu.Unlock(); return n.version }

// SetBefore installs a hook called under the mutex after the request was parsed
// and before responses are computed. It may mutate n.Chain() in place (the
// version is bumped automatically when length or head hash changed) and set
// Drop/Status/RawBody. With Drop set nothing is computed and After is skipped.
func (n *Node) SetBefore(f func(ex *Exchange)) { n.mu.Lock(); n.before = f; n.mu.Unlock() }

// SetAfter installs a hook called under the mutex after Responses were
// computed and before sending.
func (n *Node) SetAfter(f func(ex *Exchange)) { n.mu.Lock(); n.after = f; n.mu.Unlock() }

// Log returns deep copies of all exchanges so far, in Seq order, as finally sent.
func (n *Node) Log() []Exchange {
	n.mu.Lock()
	defer n.mu.Unlock()
	out := make([]Exchange, len(n.log))
	for i := range n.log {
		out[i] = copyExchange(&n.log[i])
	}
	return out
}

func (n *Node) ResetLog() { n.mu.Lock(); n.log = nil; n.mu.Unlock() }

func deepCopy(v any) any {
	switch v := v.(type) {
	case map[string]any:
		m := make(map[string]any, len(v))
		for k, x := range v {
			m[k] = deepCopy(x)
		}
		return m
	case []any:
		s := make([]any, len(v))
		for i, x := range v {
			s[i] = deepCopy(x)
		}
		return s
	case json.RawMessage:
		return json.RawMessage(cp(v))
	case []byte:
		return cp(v)
	}
	return v
}

func copyExchange(ex *Exchange) Exchange {
	out := *ex
	out.RawBody = cp(ex.RawBody)
	out.Requests = make([]Request, len(ex.Requests))
	for i, r := range ex.Requests {
		out.Requests[i] = Request{ID: cp(r.ID), Method: r.Method, Params: make([]json.RawMessage, len(r.Params))}
		for j := range r.Params {
			out.Requests[i].Params[j] = cp(r.Params[j])
		}
	}
	out.Responses = nil
	for _, r := range ex.Responses {
		out.Responses = append(out.Responses, deepCopy(r).(map[string]any))
	}
	return out
}

type rpcError struct {
	code int
	msg  string
}

func errResp(id json.RawMessage, code int, msg string) map[string]any {
	return map[string]any{"jsonrpc": "2.0", "id": id, "error": map[string]any{"code": code, "message": msg}}
}

func (n *Node) fingerprint() string {
	if h := n.chain.Head(); h != nil {
		return fmt.Sprintf("%p|%d|%x", n.chain, len(n.chain.Blocks), h.Hash)
	}
	return fmt.Sprintf("%p|0", n.chain)
}

func (n *Node) serve(w http.ResponseWriter, r *http.Request) {
	if r.URL.Path == "/ws" {
		n.serveWS(w, r)
		return
	}
	body, _ := io.ReadAll(r.Body)
	n.mu.Lock()
	ex := Exchange{Seq: n.seq, Status: 200}
	n.seq++
	type wire struct {
		ID     json.RawMessage `json:"id"`
		Method string          `json:"method"`
		Params json.RawMessage `json:"params"`
	}
	var (
		wires   []wire
		trimmed = bytes.TrimSpace(body)
		err     error
	)
	if ex.Batch = len(trimmed) > 0 && trimmed[0] == '['; ex.Batch {
		err = json.Unmarshal(trimmed, &wires)
	} else {
		wires = make([]wire, 1)
		err = json.Unmarshal(trimmed, &wires[0])
	}
	if err != nil { // malformed JSON: logged, hooks not called
		ex.Status, ex.RawBody = 400, []byte("malformed json: "+err.Error())
		wires = nil
	}
	badParams := map[int]bool{}
	for i, wr := range wires {
		req := Request{ID: wr.ID, Method: wr.Method}
		if len(req.ID) == 0 {
			req.ID = json.RawMessage("null")
		}
		if len(wr.Params) > 0 && json.Unmarshal(wr.Params, &req.Params) != nil {
			badParams[i] = true
		}
		ex.Requests = append(ex.Requests, req)
	}
	if err == nil {
		if n.before != nil {
			fp := n.fingerprint()
			n.before(&ex)
			if n.fingerprint() != fp {
				n.version++
			}
		}
		ex.Version = n.version
		if !ex.Drop {
			full := n.chain
			if k := n.lag[r.URL.Path]; k > 0 && len(full.Blocks) > k+1 {
				n.chain = &Chain{Blocks: full.Blocks[:len(full.Blocks)-k]}
			}
			for i, req := range ex.Requests {
				res, rerr := n.dispatch(req)
				switch {
				case badParams[i]:
					ex.Responses = append(ex.Responses, errResp(req.ID, -32602, "invalid params: not an array"))
				case rerr != nil:
					ex.Responses = append(ex.Responses, errResp(req.ID, rerr.code, rerr.msg))
				default:
					ex.Responses = append(ex.Responses, map[string]any{"jsonrpc": "2.0", "id": req.ID, "result": res})
				}
			}
			n.chain = full
			if ex.Batch && len(ex.Requests) == 0 { // geth: single error object
				ex.Responses = append(ex.Responses, errResp(json.RawMessage("null"), -32600, "empty batch"))
				ex.RawBody, _ = json.Marshal(ex.Responses[0])
			}
			if n.after != nil {
				n.after(&ex)
			}
		}
	}
	out := ex.RawBody
	if out == nil && !ex.Drop {
		if ex.Batch {
			if ex.Responses == nil {
				ex.Responses = []map[string]any{}
			}
			out, err = json.Marshal(ex.Responses)
		} else if len(ex.Responses) > 0 {
			out, err = json.Marshal(ex.Responses[0])
		}
		if err != nil {
			ex.Status, out = 500, []byte("simnode: cannot marshal responses: "+err.Error())
		}
	}
	n.log = append(n.log, copyExchange(&ex))
	n.mu.Unlock()

	if ex.Drop {
		if hj, ok := w.(http.Hijacker); ok {
			if conn, _, err := hj.Hijack(); err == nil {
				conn.Close()
				return
			}
		}
		panic(http.ErrAbortHandler)
	}
	w.Header().Set("Content-Type", "application/json")
	w.WriteHeader(ex.Status)
	w.Write(out)
}

// Redispatch recomputes the i-th response of ex from the node's CURRENT chain. For use inside a
// Before/After hook only (the node's lock is held there): lets a hook serve the tail of one batch
// reply from a chain version different from its head - a reorg landing in the middle of a batch.
func (n *Node) Redispatch(ex *Exchange, i int) {
	if i < 0 || i >= len(ex.Requests) || i >= len(ex.Responses) {
		return
	}
	req := ex.Requests[i]
	res, rerr := n.dispatch(req)
	if rerr != nil {
		ex.Responses[i] = errResp(req.ID, rerr.code, rerr.msg)
		return
	}
	ex.Responses[i] = map[string]any{"jsonrpc": "2.0", "id": req.ID, "result": res}
}

func invalid(format string, a ...any) *rpcError {
	return &rpcError{-32602, "invalid params: " + fmt.Sprintf(format, a...)}
}

// blockArg resolves a block tag / hex number. ok=false means "no such block".
func (n *Node) blockArg(raw json.RawMessage) (num uint64, ok bool, e *rpcError) {
	var s string
	if json.Unmarshal(raw, &s) != nil {
		return 0, false, invalid("block number must be a string: %s", raw)
	}
	head := uint64(len(n.chain.Blocks))
	switch s {
	case "latest", "pending", "safe", "finalized":
		return head - 1, head > 0, nil
	case "earliest":
		return 0, head > 0, nil
	}
	if !strings.HasPrefix(s, "0x") {
		return 0, false, invalid("hex string without 0x prefix: %q", s)
	}
	num, err := strconv.ParseUint(s[2:], 16, 64)
	if err != nil {
		return 0, false, invalid("bad hex number %q", s)
	}
	return num, num < head, nil
}

func decodeHexData(s string) ([]byte, *rpcError) {
	b, err := hex.DecodeString(strings.TrimPrefix(s, "0x"))
	if err != nil || !strings.HasPrefix(s, "0x") {
		return nil, invalid("bad hex data %q", s)
	}
	return b, nil
}

// oneOrMany decodes null | "0x.." | ["0x..", ...] into an OR list.
func oneOrMany(raw json.RawMessage) ([][]byte, *rpcError) {
	var (
		one  string
		many []string
	)
	switch {
	case len(raw) == 0 || string(raw) == "null":
		return nil, nil
	case json.Unmarshal(raw, &one) == nil:
		many = []string{one}
	case json.Unmarshal(raw, &many) != nil:
		return nil, invalid("expected hex string or array of hex strings: %s", raw)
	}
	out := [][]byte{}
	for _, s := range many {
		b, e := decodeHexData(s)
		if e != nil {
			return nil, e
		}
		out = append(out, b)
	}
	return out, nil
}

func (n *Node) dispatch(req Request) (any, *rpcError) {
	need := func(k int) *rpcError {
		if len(req.Params) < k {
			return invalid("missing value for required argument %d", len(req.Params))
		}
		return nil
	}
	switch req.Method {
	case "eth_getBlockByNumber":
		if e := need(2); e != nil {
			return nil, e
		}
		var full bool
		if json.Unmarshal(req.Params[1], &full) != nil {
			return nil, invalid("second argument must be a bool")
		}
		num, ok, e := n.blockArg(req.Params[0])
		if e != nil || !ok {
			return nil, e
		}
		return BlockJSON(&n.chain.Blocks[num], full), nil
	case "eth_getBlockReceipts", "trace_block":
		if e := need(1); e != nil {
			return nil, e
		}
		num, ok, e := n.blockArg(req.Params[0])
		if e != nil || !ok {
			return nil, e
		}
		if req.Method == "trace_block" {
			return TracesJSON(&n.chain.Blocks[num]), nil
		}
		return ReceiptsJSON(&n.chain.Blocks[num]), nil
	case "eth_getLogs":
		if e := need(1); e != nil {
			return nil, e
		}
		var f struct {
			From    json.RawMessage   `json:"fromBlock"`
			To      json.RawMessage   `json:"toBlock"`
			Address json.RawMessage   `json:"address"`
			Topics  []json.RawMessage `json:"topics"`
		}
		if json.Unmarshal(req.Params[0], &f) != nil {
			return nil, invalid("bad filter object")
		}
		rng := [2]uint64{}
		for i, raw := range []json.RawMessage{f.From, f.To} {
			if len(raw) == 0 || string(raw) == "null" {
				raw = json.RawMessage(`"latest"`)
			}
			num, ok, e := n.blockArg(raw)
			if e != nil {
				return nil, e
			}
			if !ok && len(n.chain.Blocks) == 0 {
				return []any{}, nil
			}
			rng[i] = num
		}
		addrs, e := oneOrMany(f.Address)
		if e != nil {
			return nil, e
		}
		var topics [][][]byte
		for _, raw := range f.Topics {
			t, e := oneOrMany(raw)
			if e != nil {
				return nil, e
			}
			topics = append(topics, t)
		}
		return LogsJSON(n.chain, rng[0], rng[1], addrs, topics), nil
	}
	return nil, &rpcError{-32601, "method not found"}
}
