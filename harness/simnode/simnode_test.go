package simnode

import (
	"bytes"
	"context"
	"encoding/json"
	"fmt"
	"io"
	"net/http"
	"reflect"
	"strconv"
	"strings"
	"testing"
	"time"

	"github.com/indexsupply/shovel/eth"
	"github.com/indexsupply/shovel/jrpc2"
	"github.com/indexsupply/shovel/shovel/glf"
)

var ctx = context.Background()

func client(n *Node) (*jrpc2.Client, string) {
	url := n.URL() + "/any/path/nocache"
	return jrpc2.New(url).WithPollDuration(time.Hour), url
}

func filter(fields ...string) *glf.Filter { return glf.New(fields, nil, nil) }

func same(t *testing.T, what string, got, want any) {
	t.Helper()
	if g, w := show(got), show(want); g != w {
		t.Errorf("%s: got %s want %s", what, g, w)
	}
}

func show(v any) string {
	switch v := v.(type) {
	case string:
		return v
	case error:
		return v.Error()
	case map[string]any:
		return fmt.Sprintf("%v", v)
	case []any:
		s := "["
		for _, x := range v {
			s += show(x) + " "
		}
		return s + "]"
	}
	return fmt.Sprintf("%x", v) // bytes, nested byte slices and integers in hex
}

func findTx(t *testing.T, b *eth.Block, idx uint64) *eth.Tx {
	t.Helper()
	for i := range b.Txs {
		if uint64(b.Txs[i].Idx) == idx {
			return &b.Txs[i]
		}
	}
	t.Fatalf("block %d: tx %d missing", b.Num(), idx)
	return nil
}

func checkHeader(t *testing.T, g *eth.Block, w *Block) {
	t.Helper()
	same(t, "number", g.Num(), w.Num)
	same(t, "hash", g.Header.Hash, w.Hash)
	same(t, "parent", g.Header.Parent, w.Parent)
	same(t, "bloom", g.Header.LogsBloom, w.LogsBloom)
	same(t, "time", uint64(g.Header.Time), w.Time)
}

func checkBlockTx(t *testing.T, g *eth.Tx, w *Tx) {
	t.Helper()
	same(t, "tx.hash", g.PrecompHash, w.Hash)
	same(t, "tx.from", g.From, w.From)
	same(t, "tx.to", g.To, w.To)
	same(t, "tx.input", g.Data, w.Input)
	same(t, "tx.value", g.Value.Hex(), w.Value.Hex())
	same(t, "tx.gasPrice", g.GasPrice.Hex(), w.GasPrice.Hex())
	same(t, "tx.maxPrio", g.MaxPriorityFeePerGas.Hex(), w.MaxPriorityFeePerGas.Hex())
	same(t, "tx.maxFee", g.MaxFeePerGas.Hex(), w.MaxFeePerGas.Hex())
	same(t, "tx.type", byte(g.Type), w.Type)
	same(t, "tx.nonce", uint64(g.Nonce), w.Nonce)
	same(t, "tx.gas", uint64(g.GasLimit), w.GasLimit)
	same(t, "tx.v", g.V.Uint64(), uint64(1))
	if g.R.IsZero() || g.S.IsZero() {
		t.Errorf("r/s not decoded")
	}
}

func checkLogs(t *testing.T, g eth.Logs, w []Log) {
	t.Helper()
	same(t, "nlogs", len(g), len(w))
	for i := 0; i < len(g) && i < len(w); i++ {
		same(t, "log.idx", uint64(g[i].Idx), w[i].Idx)
		same(t, "log.addr", g[i].Address, w[i].Addr)
		same(t, "log.data", g[i].Data, w[i].Data)
		same(t, "log.topics", g[i].Topics, w[i].Topics)
	}
}

func checkReceiptTx(t *testing.T, g *eth.Tx, w *Tx) {
	t.Helper()
	same(t, "rc.hash", g.PrecompHash, w.Hash)
	same(t, "rc.from", g.From, w.From)
	same(t, "rc.to", g.To, w.To)
	same(t, "rc.type", byte(g.Type), w.Type)
	same(t, "rc.status", byte(g.Status), w.Status)
	same(t, "rc.gasUsed", uint64(g.GasUsed), w.GasUsed)
	same(t, "rc.effGasPrice", g.EffectiveGasPrice.Hex(), w.EffectiveGasPrice.Hex())
	same(t, "rc.contract", g.ContractAddress, w.ContractAddress)
	checkLogs(t, g.Logs, w.Logs)
}

func TestClientDecodesChain(t *testing.T) {
	ch := NewChain(6, GenOpts{MakeTx: func(s, n, i uint64, tx *Tx) {
		DefaultMakeTx(s, n, i, tx)
		if n == 2 && i == 1 { // contract creation shape: to = null
			tx.To = nil
		}
		if n == 3 {
			tx.ContractAddress, tx.Status = nil, 0
		}
	}})
	n := NewNode(ch.Clone())
	defer n.Close()
	c, url := client(n)

	num, h, err := c.Latest(ctx, url, 0)
	same(t, "latest", []any{num, h, err}, []any{uint64(5), ch.Head().Hash, nil})
	h, err = c.Hash(ctx, url, 3)
	same(t, "hash", []any{h, err}, []any{ch.Blocks[3].Hash, nil})

	const start, limit = 1, 4
	get := func(fields ...string) []eth.Block {
		t.Helper()
		bs, err := c.Get(ctx, url, filter(fields...), start, limit)
		if err != nil || len(bs) != limit {
			t.Fatalf("Get %v: %d blocks, err=%v", fields, len(bs), err)
		}
		return bs
	}
	each := func(bs []eth.Block, f func(g *eth.Block, w *Block)) {
		for i := range bs {
			f(&bs[i], &ch.Blocks[start+i])
		}
	}
	t.Run("headers", func(t *testing.T) {
		each(get("block_time"), func(g *eth.Block, w *Block) {
			checkHeader(t, g, w)
			same(t, "ntx", len(g.Txs), 0)
		})
	})
	t.Run("blocks", func(t *testing.T) {
		each(get("tx_input"), func(g *eth.Block, w *Block) {
			checkHeader(t, g, w)
			same(t, "ntx", len(g.Txs), len(w.Txs))
			for i := range w.Txs {
				same(t, "tx.idx", uint64(g.Txs[i].Idx), w.Txs[i].Idx) // served order preserved
				checkBlockTx(t, &g.Txs[i], &w.Txs[i])
			}
		})
	})
	t.Run("receipts", func(t *testing.T) {
		each(get("tx_status"), func(g *eth.Block, w *Block) {
			same(t, "number", g.Num(), w.Num)
			same(t, "hash", g.Header.Hash, w.Hash) // taken from receipt[0].blockHash
			same(t, "ntx", len(g.Txs), len(w.Txs))
			for i := range w.Txs {
				checkReceiptTx(t, findTx(t, g, w.Txs[i].Idx), &w.Txs[i])
			}
		})
	})
	t.Run("blocks+receipts", func(t *testing.T) {
		each(get("tx_input", "tx_status", "block_time"), func(g *eth.Block, w *Block) {
			checkHeader(t, g, w)
			same(t, "ntx", len(g.Txs), len(w.Txs))
			for i := range w.Txs {
				checkBlockTx(t, &g.Txs[i], &w.Txs[i])
				checkReceiptTx(t, &g.Txs[i], &w.Txs[i])
			}
		})
	})
	t.Run("logs", func(t *testing.T) {
		each(get("block_num", "log_idx"), func(g *eth.Block, w *Block) {
			same(t, "number", g.Num(), w.Num)
			same(t, "hash", g.Header.Hash, w.Hash)
			same(t, "ntx", len(g.Txs), len(w.Txs))
			for i := range w.Txs { // client tx order is map-iteration order
				gtx := findTx(t, g, w.Txs[i].Idx)
				same(t, "tx.hash", gtx.PrecompHash, w.Txs[i].Hash)
				checkLogs(t, gtx.Logs, w.Txs[i].Logs)
			}
		})
	})
	t.Run("traces", func(t *testing.T) {
		each(get("trace_action_from"), func(g *eth.Block, w *Block) {
			same(t, "number", g.Num(), w.Num)
			same(t, "hash", g.Header.Hash, w.Hash)
			same(t, "ntx", len(g.Txs), len(w.Txs))
			for i := range w.Txs {
				gtx, wtx := findTx(t, g, w.Txs[i].Idx), &w.Txs[i]
				same(t, "tx.hash", gtx.PrecompHash, wtx.Hash)
				same(t, "ntraces", len(gtx.TraceActions), len(wtx.Traces))
				for j, a := range gtx.TraceActions {
					same(t, "trace", []any{a.Idx, a.From, a.To, a.Value.Hex(), a.CallType},
						[]any{uint64(j), wtx.Traces[j].From, wtx.Traces[j].To, wtx.Traces[j].Value.Hex(), wtx.Traces[j].CallType})
				}
			}
		})
	})
	// Exact request log: single vs batch, ids, params.
	log := n.Log()
	var shape []string
	for _, ex := range log {
		s := fmt.Sprintf("%v:", ex.Batch)
		for _, r := range ex.Requests {
			s += fmt.Sprintf(" %s%s", r.Method, r.Params)
		}
		shape = append(shape, s)
		for i, r := range ex.Requests { // ids echoed verbatim
			same(t, "id", ex.Responses[i]["id"], r.ID)
		}
	}
	want := []string{
		`false: eth_getBlockByNumber["latest" false]`,
		`false: eth_getBlockByNumber["0x3" true]`,
		`true: eth_getBlockByNumber["0x1" false] eth_getBlockByNumber["0x2" false] eth_getBlockByNumber["0x3" false] eth_getBlockByNumber["0x4" false]`,
		`true: eth_getBlockByNumber["0x1" true] eth_getBlockByNumber["0x2" true] eth_getBlockByNumber["0x3" true] eth_getBlockByNumber["0x4" true]`,
		`true: eth_getBlockReceipts["0x1"] eth_getBlockReceipts["0x2"] eth_getBlockReceipts["0x3"] eth_getBlockReceipts["0x4"]`,
		`true: eth_getBlockByNumber["0x1" true] eth_getBlockByNumber["0x2" true] eth_getBlockByNumber["0x3" true] eth_getBlockByNumber["0x4" true]`,
		`true: eth_getBlockReceipts["0x1"] eth_getBlockReceipts["0x2"] eth_getBlockReceipts["0x3"] eth_getBlockReceipts["0x4"]`,
		`true: eth_getBlockByNumber["0x4" false] eth_getLogs[{"fromBlock":"0x1","toBlock":"0x4","address":null,"topics":null}]`,
		`false: trace_block["0x1"]`, `false: trace_block["0x2"]`, `false: trace_block["0x3"]`, `false: trace_block["0x4"]`,
	}
	if !reflect.DeepEqual(shape, want) {
		t.Errorf("request log:\n%s\nwant:\n%s", strings.Join(shape, "\n"), strings.Join(want, "\n"))
	}
	if !reflect.DeepEqual(log[1].Responses[0]["result"], BlockJSON(&ch.Blocks[3], true)) ||
		!reflect.DeepEqual(log[4].Responses[2]["result"], ReceiptsJSON(&ch.Blocks[3])) ||
		!reflect.DeepEqual(log[7].Responses[1]["result"], LogsJSON(ch, 1, 4, nil, nil)) ||
		!reflect.DeepEqual(log[8].Responses[0]["result"], TracesJSON(&ch.Blocks[1])) {
		t.Errorf("logged responses differ from exported builders")
	}
}

func post(t *testing.T, n *Node, body string) (int, any) {
	t.Helper()
	resp, err := http.Post(n.URL()+"/x", "application/json", strings.NewReader(body))
	if err != nil {
		t.Fatal(err)
	}
	defer resp.Body.Close()
	b, _ := io.ReadAll(resp.Body)
	var v any
	json.Unmarshal(b, &v)
	return resp.StatusCode, v
}

func roundtrip(v any) any {
	b, _ := json.Marshal(v)
	var out any
	json.Unmarshal(b, &out)
	return out
}

func TestProtocol(t *testing.T) {
	ch := NewChain(3, GenOpts{TxsPerBlock: func(n uint64) int { return int(n) }})
	n := NewNode(ch)
	defer n.Close()
	if st, _ := post(t, n, `{"id":1,`); st != 400 {
		t.Errorf("malformed: status %d", st)
	}
	st, v := post(t, n, `{"jsonrpc":"2.0","id":7,"method":"eth_chainId","params":[]}`)
	same(t, "unknown method", []any{st, v}, []any{200, roundtrip(errResp(json.RawMessage("7"), -32601, "method not found"))})
	st, v = post(t, n, `[]`)
	same(t, "empty batch", []any{st, v}, []any{200, roundtrip(errResp(json.RawMessage("null"), -32600, "empty batch"))})
	st, v = post(t, n, ` [{"id":"a","method":"eth_getBlockByNumber","params":["latest",false]},
		{"id":2,"method":"eth_getBlockByNumber","params":["0x63",true]},
		{"id":null,"method":"trace_block","params":["0x0"]},
		{"id":"d","method":"eth_getBlockReceipts","params":["0x3"]},
		{"id":"e","method":"eth_getLogs","params":[{"fromBlock":"0x2","toBlock":"0x63","address":"0x00"}]},
		{"id":"f","method":"eth_getBlockByNumber","params":["nope",false]}]`)
	res := func(id string, r any) map[string]any {
		return map[string]any{"jsonrpc": "2.0", "id": json.RawMessage(id), "result": r}
	}
	want := roundtrip([]any{
		res(`"a"`, BlockJSON(&ch.Blocks[2], false)), res(`2`, nil), res(`null`, []any{}), res(`"d"`, nil), res(`"e"`, []any{}),
		errResp(json.RawMessage(`"f"`), -32602, `invalid params: hex string without 0x prefix: "nope"`),
	})
	if st != 200 || !reflect.DeepEqual(v, want) {
		t.Errorf("batch: status %d\n got %v\nwant %v", st, v, want)
	}
	same(t, "tx hashes only", len(v.([]any)[0].(map[string]any)["result"].(map[string]any)["transactions"].([]any)), 2)
	log := n.Log()
	same(t, "log", []any{len(log), log[0].Status, len(log[0].Requests), log[3].Seq, log[3].Batch, len(log[3].Responses)}, []any{4, 400, 0, 3, true, 6})
	log[3].Responses[0]["result"] = "clobbered" // Log returns deep copies
	same(t, "deep copy", n.Log()[3].Responses[0]["result"], BlockJSON(&ch.Blocks[2], false))
	n.ResetLog()
	same(t, "reset", len(n.Log()), 0)
}

func TestHooks(t *testing.T) {
	orig := NewChain(8, GenOpts{})
	n := NewNode(orig.Clone())
	c, url := client(n)
	hdr := filter("block_time")

	// A reorg landing just before the 2nd exchange is visible from that exchange on.
	n.SetBefore(func(ex *Exchange) {
		if ex.Seq == 1 {
			n.Chain().Reorg(2, 3, GenOpts{Salt: 7})
		}
	})
	var got [][]byte
	for i := 0; i < 3; i++ {
		h, err := c.Hash(ctx, url, 6)
		if err != nil {
			t.Fatal(err)
		}
		got = append(got, h)
	}
	forked := orig.Clone()
	forked.Reorg(2, 3, GenOpts{Salt: 7})
	same(t, "hashes across reorg", got, [][]byte{orig.Blocks[6].Hash, forked.Blocks[6].Hash, forked.Blocks[6].Hash})
	log := n.Log()
	same(t, "versions", []int{log[0].Version, log[1].Version, log[2].Version, n.Version()}, []int{0, 1, 1, 1})
	n.With(func(c *Chain) { c.Grow(1, GenOpts{Salt: 7}) })
	num, _, _ := c.Latest(ctx, url, 0)
	same(t, "with", []any{n.Version(), num}, []any{2, uint64(9)})
	n.SetBefore(nil)

	after := func(name string, f func(ex *Exchange), limit uint64, wantErr string) {
		t.Helper()
		n.SetAfter(f)
		_, err := c.Get(ctx, url, hdr, 1, limit)
		if err == nil || !strings.Contains(err.Error(), wantErr) {
			t.Errorf("%s: err = %v, want %q", name, err, wantErr)
		}
	}
	after("null result", func(ex *Exchange) { ex.Responses[0]["result"] = nil }, 1, "missing result for 1")
	after("swap", func(ex *Exchange) { ex.Responses[0], ex.Responses[1] = ex.Responses[1], ex.Responses[0] }, 2, "requested first: 1 got: 2")
	after("swap middle", func(ex *Exchange) { ex.Responses[1], ex.Responses[2] = ex.Responses[2], ex.Responses[1] }, 4, "invalid data")
	after("error", func(ex *Exchange) {
		ex.Responses[0] = errResp(ex.Requests[0].ID, -32000, "boom")
	}, 1, "code=-32000 msg=boom")
	after("status 500", func(ex *Exchange) { ex.Status = 500 }, 1, "rpc http error: 500")
	after("truncated", func(ex *Exchange) { ex.RawBody = []byte(`[{"jsonrpc":"2.0","id":"x","result":{"numb`) }, 1, "unable to json decode")
	n.ResetLog()
	after("drop", func(ex *Exchange) { ex.Drop = true }, 1, "unable to do http request")
	n.SetAfter(nil)
	n.SetBefore(func(ex *Exchange) { ex.Drop = true })
	if _, err := c.Hash(ctx, url, 1); err == nil {
		t.Errorf("drop in Before: no error")
	}
	n.SetBefore(nil)
	log = n.Log() // dropped requests are not retried by the client
	same(t, "drop log", []any{len(log), log[0].Drop, log[1].Drop, len(log[1].Responses)}, []any{2, true, true, 0})

	n.Close()
	if _, err := c.Hash(ctx, url, 1); err == nil { // requests after Close just fail
		t.Errorf("request after Close succeeded")
	}
}

// Executable documentation of client behaviour the harness has to model or avoid.
func checkInvariants(t *testing.T, c *Chain) {
	t.Helper()
	seen := map[string]bool{}
	for i, b := range c.Blocks {
		parent := make([]byte, 32)
		if i > 0 {
			parent = c.Blocks[i-1].Hash
		}
		if b.Num != uint64(i) || !bytes.Equal(b.Parent, parent) || len(b.Hash) != 32 || len(b.LogsBloom) != 256 || seen[string(b.Hash)] {
			t.Fatalf("block %d violates chain invariants", i)
		}
		seen[string(b.Hash)] = true
		last := int64(-1)
		for j, tx := range b.Txs {
			if tx.Idx != uint64(j) || seen[string(tx.Hash)] {
				t.Fatalf("block %d tx %d: bad idx or duplicate hash", i, j)
			}
			seen[string(tx.Hash)] = true
			for _, l := range tx.Logs {
				if int64(l.Idx) <= last {
					t.Fatalf("block %d: log idx not increasing", i)
				}
				last = int64(l.Idx)
			}
		}
	}
}


func TestGeneratorDeterminism(t *testing.T) {
	a, b := NewChain(8, GenOpts{}), NewChain(5, GenOpts{})
	b.Grow(3, GenOpts{})
	if !reflect.DeepEqual(a, b) || !reflect.DeepEqual(a, a.Clone()) {
		t.Fatal("NewChain/Grow/Clone not deterministic")
	}
	checkInvariants(t, a)
	// Default transactions: every field non-zero and pairwise distinct where comparable.
	tx := a.Blocks[1].Txs[1]
	vals := []any{tx.Hash, tx.From, tx.To, tx.Input, tx.ContractAddress, tx.Value.Hex(), tx.GasPrice.Hex(),
		tx.MaxPriorityFeePerGas.Hex(), tx.MaxFeePerGas.Hex(), tx.EffectiveGasPrice.Hex(), tx.Nonce, tx.GasLimit, tx.GasUsed,
		tx.Logs[0].Addr, tx.Logs[0].Data, tx.Logs[1].Topics[2], tx.Traces[0].From, tx.Traces[1].To, tx.Traces[1].Value.Hex()}
	distinct := map[string]bool{}
	for _, v := range vals {
		s := fmt.Sprintf("%x", v)
		if strings.Trim(s, "0x") == "" || distinct[s] {
			t.Errorf("default tx field zero or duplicated: %s", s)
		}
		distinct[s] = true
	}
	if tx.Type == 0 || tx.Status == 0 || len(a.Blocks[1].Txs) != 2 || len(tx.Logs) != 2 || len(tx.Traces) != 2 || tx.Traces[0].CallType == tx.Traces[1].CallType {
		t.Errorf("default tx shape wrong: %+v", tx)
	}

	r1, r2, r3 := a.Clone(), a.Clone(), a.Clone()
	r1.Reorg(3, 4, GenOpts{Salt: 1})
	r2.Reorg(3, 4, GenOpts{Salt: 1})
	r3.Reorg(3, 4, GenOpts{Salt: 2})
	if !reflect.DeepEqual(r1, r2) || !reflect.DeepEqual(a, b) {
		t.Fatal("Reorg not deterministic or mutated its source")
	}
	for _, r := range []*Chain{r1, r3} {
		checkInvariants(t, r)
		same(t, "len", len(r.Blocks), 9)
		if !reflect.DeepEqual(r.Blocks[:5], a.Blocks[:5]) {
			t.Errorf("blocks below the fork point changed")
		}
	}
	for i := 5; i < 9; i++ {
		hs := [][]byte{r1.Blocks[i].Hash, r3.Blocks[i].Hash, r1.Blocks[i].Txs[0].Hash, r3.Blocks[i].Txs[0].Hash}
		if i < 8 {
			hs = append(hs, a.Blocks[i].Hash, a.Blocks[i].Txs[0].Hash)
		}
		for j := range hs {
			for k := j + 1; k < len(hs); k++ {
				if bytes.Equal(hs[j], hs[k]) {
					t.Errorf("block %d: hashes %d and %d collide across forks", i, j, k)
				}
			}
		}
	}
	cl := a.Clone()
	cl.Blocks[2].Txs[0].Logs[0].Topics[0][0] ^= 0xff
	cl.Blocks[2].Hash[0] ^= 0xff
	if !reflect.DeepEqual(a, b) {
		t.Errorf("Clone shares memory")
	}
}

func TestLogFilterSemantics(t *testing.T) {
	word := func(s string) []byte { return Derive(s) }
	A, B := word("A")[:20], word("B")[:20]
	X, Y, P, Q, R := word("X"), word("Y"), word("P"), word("Q"), word("R")
	ch := NewChain(4, GenOpts{TxsPerBlock: func(uint64) int { return 2 }, MakeTx: func(s, n, i uint64, tx *Tx) {
		DefaultMakeTx(s, n, i, tx)
		if i == 0 {
			tx.Logs = []Log{{Idx: 0, Addr: A, Topics: [][]byte{X, P}}, {Idx: 1, Addr: B, Topics: [][]byte{X, Q, R}, Data: []byte{1}}}
		} else {
			tx.Logs = []Log{{Idx: 2, Addr: A, Topics: [][]byte{Y}}, {Idx: 3, Addr: A}}
		}
	}})
	n := NewNode(ch)
	defer n.Close()
	c, url := client(n)
	hexes := func(bs [][]byte) (out []string) {
		for _, b := range bs {
			out = append(out, Hex(b))
		}
		return
	}
	cases := []struct {
		addrs  [][]byte
		topics [][][]byte
		want   []uint64 // log idxs matched in every block
	}{
		{nil, nil, []uint64{0, 1, 2, 3}},
		{[][]byte{A}, nil, []uint64{0, 2, 3}},
		{[][]byte{A, B}, nil, []uint64{0, 1, 2, 3}},
		{[][]byte{word("C")[:20]}, nil, nil},
		{nil, [][][]byte{{X}}, []uint64{0, 1}},
		{nil, [][][]byte{nil, {Q, P}}, []uint64{0, 1}},
		{nil, [][][]byte{{}, {}, {R}}, []uint64{1}},
		{nil, [][][]byte{{Y}, {P}}, nil}, // log 2 has only one topic
		{nil, [][][]byte{{Y, X}, nil}, []uint64{0, 1}},
		{[][]byte{B}, [][][]byte{{X}}, []uint64{1}},
		{[][]byte{A}, [][][]byte{{X}, {Q}}, nil},
	}
	for ci, tc := range cases {
		var want, got []uint64 // (block<<8 | logIdx) for blocks 1..3, in order
		for b := uint64(1); b <= 3; b++ {
			for _, idx := range tc.want {
				want = append(want, b<<8|idx)
			}
		}
		for _, o := range LogsJSON(ch, 1, 99, tc.addrs, tc.topics) { // toBlock clipped to head
			m := o.(map[string]any)
			bn, _ := strconv.ParseUint(m["blockNumber"].(string)[2:], 16, 64)
			li, _ := strconv.ParseUint(m["logIndex"].(string)[2:], 16, 64)
			got = append(got, bn<<8|li)
		}
		same(t, fmt.Sprintf("case %d LogsJSON", ci), got, want)

		// Same through the real client (range 1..3).
		var topics [][]string
		for _, tp := range tc.topics {
			topics = append(topics, hexes(tp))
		}
		bs, err := c.Get(ctx, url, glf.New([]string{"log_idx"}, hexes(tc.addrs), topics), 1, 3)
		if err != nil {
			t.Fatalf("case %d: %v", ci, err)
		}
		got = nil
		for bi := range bs {
			b := &bs[bi]
			for idx := uint64(0); idx < 2; idx++ {
				for i := range b.Txs {
					if uint64(b.Txs[i].Idx) == idx {
						for _, l := range b.Txs[i].Logs {
							got = append(got, b.Num()<<8|uint64(l.Idx))
						}
					}
				}
			}
		}
		same(t, fmt.Sprintf("case %d client", ci), got, want)
	}
	same(t, "empty range", LogsJSON(ch, 9, 12, nil, nil), []any{})
	if LogsJSON(ch, 9, 12, nil, nil) == nil {
		t.Errorf("LogsJSON returned nil")
	}
}
