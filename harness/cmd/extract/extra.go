package main

import (
	"fmt"
	"go/ast"
	"go/token"
	"path/filepath"
	"strings"
)

// genExtra: facts for C15 (checked configuration paths, SQL splice sites), C16 (identity columns,
// required fields), C19 (routes).
func genExtra(repo, out string) {
	genSQL(repo, out)
	genRoutes(repo, out)
	genConfig(repo, out)
	genLocks(repo, out)
	genWire(repo, out)
}

// ---- C15: which configuration paths CheckUserInput checks -------------------------------------

// substitute range variables by the ranged expression + "[]"
func pathOf(e ast.Expr, env map[string]string) string {
	s := src(e)
	// longest variable names first is unnecessary here: names are distinct identifiers
	for v, repl := range env {
		if s == v {
			return repl
		}
		if strings.HasPrefix(s, v+".") {
			return repl + s[len(v):]
		}
		if strings.HasPrefix(s, v+"[") {
			return repl + s[len(v):]
		}
	}
	return s
}

func collectChecks(n ast.Node, env map[string]string, funcs map[string]*ast.FuncLit, depth int, out *[]string) {
	ast.Inspect(n, func(m ast.Node) bool {
		switch x := m.(type) {
		case *ast.RangeStmt:
			env2 := map[string]string{}
			for k, v := range env {
				env2[k] = v
			}
			if id, ok := x.Value.(*ast.Ident); ok && id.Name != "_" {
				env2[id.Name] = pathOf(x.X, env) + "[]"
			}
			// statements in order: an `if <cond> { continue | return nil | break }` that is not an error
			// check makes every later check of this loop body conditional (e.g. "skip disabled integrations")
			for _, st := range x.Body.List {
				if is, ok := st.(*ast.IfStmt); ok && !strings.Contains(src(is.Cond), "err != nil") && len(is.Body.List) > 0 {
					skips := false
					switch l := is.Body.List[len(is.Body.List)-1].(type) {
					case *ast.BranchStmt:
						skips = true
					case *ast.ReturnStmt:
						skips = len(l.Results) == 1 && src(l.Results[0]) == "nil"
					}
					if skips {
						env2 = cloneEnv(env2)
						env2["\x00cond"] = src(is.Cond)
						continue
					}
				}
				collectChecks(st, env2, funcs, depth, out)
			}
			return false
		case *ast.CallExpr:
			if id, ok := x.Fun.(*ast.Ident); ok {
				if id.Name == "check" && len(x.Args) == 2 {
					p := pathOf(x.Args[1], env)
					if c, ok := env["\x00cond"]; ok {
						p += " ?only-unless(" + c + ")"
					}
					*out = append(*out, p)
					return false
				}
				// a local recursive helper: func(inputs []dig.Input) { for _, inp := range inputs {...; self(inp.Components)} }
				if fl, ok := funcs[id.Name]; ok && len(x.Args) == 1 && depth < 2 {
					p := fl.Type.Params.List[0].Names[0].Name
					env2 := map[string]string{p: pathOf(x.Args[0], env)}
					if c, ok := env["\x00cond"]; ok {
						env2["\x00cond"] = c
					}
					collectChecks(fl.Body, env2, funcs, depth+1, out)
					return false
				}
			}
		}
		return true
	})
}

func cloneEnv(e map[string]string) map[string]string {
	o := map[string]string{}
	for k, v := range e {
		o[k] = v
	}
	return o
}

type splice struct{ fn, format, arg string }

func genSQL(repo, out string) {
	var checks []string
	if f := parse(repo, "shovel/config/config.go"); f != nil {
		fn := findFunc(f, "", "CheckUserInput")
		if fn == nil {
			fail("config.CheckUserInput not found")
		} else {
			funcs := map[string]*ast.FuncLit{}
			ast.Inspect(fn.Body, func(n ast.Node) bool {
				if as, ok := n.(*ast.AssignStmt); ok && len(as.Lhs) == 1 && len(as.Rhs) == 1 {
					if fl, ok := as.Rhs[0].(*ast.FuncLit); ok {
						funcs[src(as.Lhs[0])] = fl
					}
				}
				return true
			})
			// only the top-level statements (not the helper bodies themselves)
			for _, st := range fn.Body.List {
				if _, ok := st.(*ast.RangeStmt); ok {
					collectChecks(st, map[string]string{}, funcs, 0, &checks)
				}
			}
			if len(checks) == 0 {
				fail("config.CheckUserInput: no check(...) calls recognised")
			}
		}
	}
	// ---- splice sites: non-constant strings that flow into SQL text
	var splices []splice
	sqlish := func(s string) bool {
		l := strings.ToLower(s)
		for _, k := range []string{"select ", "delete from", "insert into", "create table", "create unique index", "create index", "alter table", "set application_name", "pg_notify"} {
			if strings.Contains(l, k) {
				return true
			}
		}
		return false
	}
	files := []string{"shovel/task.go", "dig/dig.go", "wpg/pg.go", "shovel/config/config.go", "shovel/web/web.go"}
	for _, rel := range files {
		f := parse(repo, rel)
		if f == nil {
			continue
		}
		for _, d := range f.Decls {
			fd, ok := d.(*ast.FuncDecl)
			if !ok || fd.Body == nil {
				continue
			}
			name := fd.Name.Name
			if fd.Recv != nil {
				name = strings.TrimPrefix(src(fd.Recv.List[0].Type), "*") + "." + name
			}
			name = filepath.Base(filepath.Dir(rel)) + "." + name
			// constants and variables holding SQL text inside this function
			consts := map[string]string{}
			ast.Inspect(fd.Body, func(n ast.Node) bool {
				switch x := n.(type) {
				case *ast.GenDecl:
					for _, sp := range x.Specs {
						if vs, ok := sp.(*ast.ValueSpec); ok && len(vs.Names) == 1 && len(vs.Values) == 1 {
							if s, ok := strLit(vs.Values[0]); ok {
								consts[vs.Names[0].Name] = s
							}
						}
					}
				case *ast.AssignStmt:
					if len(x.Lhs) == 1 && len(x.Rhs) == 1 && x.Tok == token.DEFINE {
						if s, ok := strLit(x.Rhs[0]); ok {
							consts[src(x.Lhs[0])] = s
						}
					}
				}
				return true
			})
			builder := name == "wpg.Table.DDL" // builds SQL by concatenation
			ast.Inspect(fd.Body, func(n ast.Node) bool {
				switch x := n.(type) {
				case *ast.CallExpr:
					if src(x.Fun) != "fmt.Sprintf" || len(x.Args) < 2 {
						return true
					}
					format, ok := strLit(x.Args[0])
					if !ok {
						format, ok = consts[src(x.Args[0])]
					}
					if !ok || !(sqlish(format) || builder) {
						return true
					}
					for _, a := range x.Args[1:] {
						splices = append(splices, splice{name, strings.Join(strings.Fields(format), " "), src(a)})
					}
				case *ast.AssignStmt:
					if builder && x.Tok == token.ADD_ASSIGN && len(x.Rhs) == 1 {
						if _, lit := strLit(x.Rhs[0]); !lit {
							if c, ok := x.Rhs[0].(*ast.CallExpr); ok && src(c.Fun) == "fmt.Sprintf" {
								return true // handled above
							}
							splices = append(splices, splice{name, "+=", src(x.Rhs[0])})
						}
					}
				}
				return true
			})
		}
	}
	if len(splices) == 0 {
		fail("no SQL splice sites recognised")
	}
	// ---- which functions run a validator (entry points)
	var validators [][2]string
	for _, rel := range []string{"shovel/config/config.go", "shovel/web/web.go", "cmd/shovel/main.go"} {
		f := parse(repo, rel)
		if f == nil {
			continue
		}
		for _, d := range f.Decls {
			fd, ok := d.(*ast.FuncDecl)
			if !ok || fd.Body == nil {
				continue
			}
			name := fd.Name.Name
			if fd.Recv != nil {
				name = strings.TrimPrefix(src(fd.Recv.List[0].Type), "*") + "." + name
			}
			name = filepath.Base(filepath.Dir(rel)) + "." + name
			// a validator call counts as such only where it runs on EVERY path: in a top-level statement of the
			// body (its expression, assignment, `if` header or `return` value — or a top-level loop over the
			// things to check) that no earlier `return` can skip; anywhere else it is marked conditional
			seen := map[string]bool{}
			returnedBefore := false
			record := func(n ast.Node, dominating bool) {
				ast.Inspect(n, func(n ast.Node) bool {
					if c, ok := n.(*ast.CallExpr); ok {
						fnn := src(c.Fun)
						for _, v := range []string{"CheckUserInput", "ValidateFix", "wstrings.Safe"} {
							if (fnn == v || strings.HasSuffix(fnn, "."+v)) && !seen[v] {
								seen[v] = true
								if dominating && !returnedBefore {
									validators = append(validators, [2]string{name, v})
								} else {
									validators = append(validators, [2]string{name, v + " ?conditional"})
								}
							}
						}
					}
					return true
				})
			}
			hasReturn := func(n ast.Node) bool {
				found := false
				ast.Inspect(n, func(n ast.Node) bool {
					if _, ok := n.(*ast.FuncLit); ok {
						return false
					}
					// a SUCCESS return (`return nil`): the caller goes on with the unchecked value. Error returns and
					// the bare returns of HTTP handlers (after http.Error) end the path before any SQL is issued
					if r, ok := n.(*ast.ReturnStmt); ok && len(r.Results) > 0 {
						allNil := true
						for _, x := range r.Results {
							if id, ok := x.(*ast.Ident); !ok || id.Name != "nil" {
								allNil = false
							}
						}
						if allNil {
							found = true
						}
					}
					return true
				})
				return found
			}
			for _, st := range fd.Body.List {
				switch x := st.(type) {
				case *ast.IfStmt:
					if x.Init != nil {
						record(x.Init, true)
					}
					record(x.Cond, true)
					record(x.Body, false)
					if x.Else != nil {
						record(x.Else, false)
					}
				case *ast.RangeStmt:
					record(x.X, true)
					record(x.Body, true) // a loop over the elements to check; an early exit inside it is a rejection
				case *ast.ForStmt:
					record(x.Body, true)
				default:
					record(st, true)
				}
				// a return in a LATER position cannot skip this statement; one here can skip the following ones,
				// unless it is the rejection of the validator itself (`if err := V(..); err != nil { return .. }`)
				if ifs, ok := st.(*ast.IfStmt); ok && ifs.Init != nil && strings.Contains(src(ifs.Cond), "err != nil") {
					continue
				}
				if _, ok := st.(*ast.RangeStmt); ok {
					continue
				}
				if hasReturn(st) {
					returnedBefore = true
				}
			}
		}
	}
	var sb strings.Builder
	sb.WriteString("/- GENERATED by harness/cmd/extract — do not edit. -/\nnamespace Shovel.Gen.Sql\n\n")
	sb.WriteString("/-- (function, validator it calls) -/\ndef validators : List (String × String) := [\n")
	for i, v := range validators {
		fmt.Fprintf(&sb, "  (%s, %s)", leanStr(v[0]), leanStr(v[1]))
		if i+1 < len(validators) {
			sb.WriteString(",")
		}
		sb.WriteString("\n")
	}
	sb.WriteString("]\n\n")
	sb.WriteString("/-- configuration paths passed to `check(...)` in config.CheckUserInput (`[]` = every element) -/\ndef checkedPaths : List String := [\n")
	for i, c := range checks {
		fmt.Fprintf(&sb, "  %s", leanStr(c))
		if i+1 < len(checks) {
			sb.WriteString(",")
		}
		sb.WriteString("\n")
	}
	sb.WriteString("]\n\n/-- every non-constant string spliced into SQL text: (function, format, argument expression) -/\ndef splices : List (String × String × String) := [\n")
	for i, s := range splices {
		fmt.Fprintf(&sb, "  (%s, %s, %s)", leanStr(s.fn), leanStr(s.format), leanStr(s.arg))
		if i+1 < len(splices) {
			sb.WriteString(",")
		}
		sb.WriteString("\n")
	}
	sb.WriteString("]\n")
	// ---- the statements of a reorg rollback: every database call of Task.Delete and Integration.Delete with its
	// statement text (whitespace normalised; a constant of the function, possibly through fmt.Sprintf) and the
	// arguments bound to it, in source order
	{
		var calls []string
		for _, fl := range []struct{ file, recv string }{{"shovel/task.go", "Task"}, {"dig/dig.go", "Integration"}} {
			f := parse(repo, fl.file)
			if f == nil {
				continue
			}
			for _, d := range f.Decls {
				fd, ok := d.(*ast.FuncDecl)
				if !ok || fd.Body == nil || fd.Recv == nil || fd.Name.Name != "Delete" || !strings.HasSuffix(src(fd.Recv.List[0].Type), fl.recv) {
					continue
				}
				consts := map[string]string{}
				ast.Inspect(fd.Body, func(n ast.Node) bool {
					if vs, ok := n.(*ast.ValueSpec); ok {
						for i, nm := range vs.Names {
							if i < len(vs.Values) {
								if bl, ok := vs.Values[i].(*ast.BasicLit); ok && bl.Kind == token.STRING {
									consts[nm.Name] = strings.Join(strings.Fields(strings.Trim(bl.Value, "`\"")), " ")
								}
							}
						}
					}
					return true
				})
				ast.Inspect(fd.Body, func(n ast.Node) bool {
					c, ok := n.(*ast.CallExpr)
					if !ok {
						return true
					}
					sel, ok := c.Fun.(*ast.SelectorExpr)
					if !ok || src(sel.X) != "pg" || len(c.Args) < 2 {
						return true
					}
					stmt := src(c.Args[1])
					if inner, ok := c.Args[1].(*ast.CallExpr); ok && src(inner.Fun) == "fmt.Sprintf" && len(inner.Args) > 0 {
						stmt = src(inner.Args[0])
					}
					if v, ok := consts[stmt]; ok {
						stmt = v
					}
					var args []string
					for _, a := range c.Args[2:] {
						args = append(args, src(a))
					}
					calls = append(calls, fmt.Sprintf("%s.Delete %s: %s <- %s", fl.recv, sel.Sel.Name, stmt, strings.Join(args, ", ")))
					return true
				})
			}
		}
		fmt.Fprintf(&sb, "\n/-- the database calls of a reorg rollback (Task.Delete, Integration.Delete): statement <- bound arguments -/\ndef rollbackCalls : List String := %s\n", leanStrList(calls))
	}
	// ---- the statements by which a task reads and records its position, and the pruning of old positions:
	// Task.latest, Task.latestDependency, Task.update, PruneTask — same rendering
	{
		var calls []string
		if f := parse(repo, "shovel/task.go"); f != nil {
			for _, want := range []string{"latest", "latestDependency", "update", "PruneTask"} {
				for _, d := range f.Decls {
					fd, ok := d.(*ast.FuncDecl)
					if !ok || fd.Body == nil || fd.Name.Name != want {
						continue
					}
					if (fd.Recv == nil) != (want == "PruneTask") {
						continue
					}
					consts := map[string]string{}
					ast.Inspect(fd.Body, func(n ast.Node) bool {
						if vs, ok := n.(*ast.ValueSpec); ok {
							for i, nm := range vs.Names {
								if i < len(vs.Values) {
									if bl, ok := vs.Values[i].(*ast.BasicLit); ok && bl.Kind == token.STRING {
										consts[nm.Name] = strings.Join(strings.Fields(strings.Trim(bl.Value, "`\"")), " ")
									}
								}
							}
						}
						return true
					})
					ast.Inspect(fd.Body, func(n ast.Node) bool {
						c, ok := n.(*ast.CallExpr)
						if !ok {
							return true
						}
						sel, ok := c.Fun.(*ast.SelectorExpr)
						if !ok || src(sel.X) != "pg" || len(c.Args) < 2 {
							return true
						}
						stmt := src(c.Args[1])
						if v, ok := consts[stmt]; ok {
							stmt = v
						}
						var args []string
						for _, a := range c.Args[2:] {
							args = append(args, src(a))
						}
						calls = append(calls, fmt.Sprintf("%s %s: %s <- %s", want, sel.Sel.Name, stmt, strings.Join(args, ", ")))
						return true
					})
				}
			}
		}
		fmt.Fprintf(&sb, "\n/-- the database calls by which a task reads / records its position, and the pruning statement -/\ndef positionCalls : List String := %s\n", leanStrList(calls))
	}
	sb.WriteString("\nend Shovel.Gen.Sql\n")
	writeIfChanged(filepath.Join(out, "Sql.lean"), sb.String())
}

// ---- C19: routes ------------------------------------------------------------------------------

func genRoutes(repo, out string) {
	f := parse(repo, "cmd/shovel/main.go")
	if f == nil {
		return
	}
	type route struct {
		path, handler string
		authn        bool
	}
	var routes []route
	ast.Inspect(f, func(n ast.Node) bool {
		c, ok := n.(*ast.CallExpr)
		if !ok {
			return true
		}
		fn := src(c.Fun)
		if (fn != "mux.Handle" && fn != "mux.HandleFunc") || len(c.Args) != 2 {
			return true
		}
		p, ok := strLit(c.Args[0])
		if !ok {
			fail("routes: non-literal path %s", src(c.Args[0]))
			return true
		}
		h := src(c.Args[1])
		r := route{path: p, handler: h}
		if inner, ok := c.Args[1].(*ast.CallExpr); ok && strings.HasSuffix(src(inner.Fun), ".Authn") && len(inner.Args) == 1 {
			r.authn = true
			r.handler = src(inner.Args[0])
		}
		if _, ok := c.Args[1].(*ast.FuncLit); ok {
			r.handler = "func-literal"
		}
		routes = append(routes, r)
		return true
	})
	if len(routes) == 0 {
		fail("routes: none recognised")
	}
	var sb strings.Builder
	sb.WriteString("/- GENERATED by harness/cmd/extract from cmd/shovel/main.go — do not edit. -/\nnamespace Shovel.Gen.Routes\n\n")
	sb.WriteString("/-- (path, handler, registered through Authn) -/\ndef routes : List (String × String × Bool) := [\n")
	for i, r := range routes {
		fmt.Fprintf(&sb, "  (%s, %s, %v)", leanStr(r.path), leanStr(r.handler), r.authn)
		if i+1 < len(routes) {
			sb.WriteString(",")
		}
		sb.WriteString("\n")
	}
	// is the dashboard served only after the manager's first Run reported (position of the calls in main)
	var servePos, firstRunPos token.Pos
	ast.Inspect(f, func(n ast.Node) bool {
		switch x := n.(type) {
		case *ast.CallExpr:
			if src(x.Fun) == "http.ListenAndServe" && servePos == 0 {
				servePos = x.Pos()
			}
		case *ast.UnaryExpr:
			if x.Op == token.ARROW && src(x.X) == "ec" && firstRunPos == 0 {
				firstRunPos = x.Pos()
			}
		}
		return true
	})
	if servePos == 0 || firstRunPos == 0 {
		fail("main: http.ListenAndServe / <-ec not recognised")
	}
	fmt.Fprintf(&sb, "]\n\n/-- `http.ListenAndServe` is started after `<-ec` (the first Run has loaded and installed its generation) -/\ndef serveAfterFirstRun : Bool := %v\n", servePos > firstRunPos)
	// what wraps the route table on its way to the listener, and what those wrappers do to the request
	// before they pass it on: every statement that writes through the request parameter (a field, a
	// header, a cookie, a replaced request)
	var wrappers, writes []string
	ast.Inspect(f, func(n ast.Node) bool {
		c, ok := n.(*ast.CallExpr)
		if !ok || src(c.Fun) != "http.ListenAndServe" || len(c.Args) != 2 {
			return true
		}
		h := c.Args[1]
		for {
			call, ok := h.(*ast.CallExpr)
			if !ok || len(call.Args) == 0 {
				break
			}
			wrappers = append(wrappers, src(call.Fun))
			h = call.Args[len(call.Args)-1]
		}
		if src(h) != "mux" {
			wrappers = append(wrappers, "?"+src(h))
		}
		return true
	})
	for _, wname := range wrappers {
		fd := findFunc(f, "", wname)
		if fd == nil {
			writes = append(writes, wname+": not a function of main.go")
			continue
		}
		ast.Inspect(fd.Body, func(n ast.Node) bool {
			fl, ok := n.(*ast.FuncLit)
			if !ok || len(fl.Type.Params.List) != 2 || len(fl.Type.Params.List[1].Names) != 1 {
				return true
			}
			rq := fl.Type.Params.List[1].Names[0].Name
			wr := fl.Type.Params.List[0].Names[0].Name
			rooted := func(e ast.Expr) bool {
				for {
					switch x := e.(type) {
					case *ast.SelectorExpr:
						e = x.X
					case *ast.IndexExpr:
						e = x.X
					case *ast.StarExpr:
						e = x.X
					case *ast.ParenExpr:
						e = x.X
					case *ast.Ident:
						return x.Name == rq
					default:
						return false
					}
				}
			}
			ast.Inspect(fl.Body, func(m ast.Node) bool {
				switch x := m.(type) {
				case *ast.AssignStmt:
					for _, l := range x.Lhs {
						if rooted(l) {
							writes = append(writes, wname+": "+src(x))
						}
					}
				case *ast.IncDecStmt:
					if rooted(x.X) {
						writes = append(writes, wname+": "+src(x))
					}
				case *ast.CallExpr:
					fn := src(x.Fun)
					if sel, ok := x.Fun.(*ast.SelectorExpr); ok && rooted(sel.X) {
						switch sel.Sel.Name {
						case "Set", "Add", "Del", "AddCookie", "WithContext", "Clone", "SetBasicAuth", "ParseForm", "ParseMultipartForm":
							writes = append(writes, wname+": "+src(x))
						}
					}
					if strings.HasSuffix(fn, ".ServeHTTP") && (len(x.Args) != 2 || src(x.Args[0]) != wr || src(x.Args[1]) != rq) {
						writes = append(writes, wname+": passes on "+src(x))
					}
				}
				return true
			})
			return false
		})
	}
	fmt.Fprintf(&sb, "\n/-- the handlers wrapped around the route table when it is handed to `http.ListenAndServe`, outermost first -/\ndef wrappers : List String := %s\n", leanStrList(wrappers))
	fmt.Fprintf(&sb, "\n/-- statements of those wrappers that write through the request they pass on (its address, headers, cookies) -/\ndef wrapperRequestWrites : List String := %s\n", leanStrList(writes))
	// ---- `-print-schema`: what the block guarded by the flag prints. Every `for … range X` inside `if printSchema { … }`
	// with the source of X (the schema the program prints is the schema `config.DDL` computes — the merged one —
	// or something else).
	{
		var printed []string
		ast.Inspect(f, func(n ast.Node) bool {
			is, ok := n.(*ast.IfStmt)
			if !ok || src(is.Cond) != "printSchema" {
				return true
			}
			ast.Inspect(is.Body, func(m ast.Node) bool {
				if rs, ok := m.(*ast.RangeStmt); ok {
					printed = append(printed, src(rs.X))
				}
				return true
			})
			return false
		})
		fmt.Fprintf(&sb, "\n/-- what `shovel -print-schema` ranges over when it prints: the source of every `range` expression in the block -/\ndef printSchemaRanges : List String := %s\n", leanStrList(printed))
	}
	// ---- the file configuration on its way from the decoder to the manager: every statement of main() that assigns to
	// `conf` (or a field of it) and every call that is handed `conf`, `&conf` or a field of it, in source order.
	{
		var uses []string
		for _, d := range f.Decls {
			fd, ok := d.(*ast.FuncDecl)
			if !ok || fd.Name.Name != "main" || fd.Body == nil {
				continue
			}
			isConf := func(e ast.Expr) bool {
				t := src(e)
				return t == "conf" || t == "&conf" || strings.HasPrefix(t, "conf.") || strings.HasPrefix(t, "&conf.")
			}
			ast.Inspect(fd.Body, func(n ast.Node) bool {
				switch x := n.(type) {
				case *ast.AssignStmt:
					for _, l := range x.Lhs {
						if isConf(l) {
							uses = append(uses, "assign: "+src(x))
						}
					}
				case *ast.RangeStmt:
					if isConf(x.X) {
						uses = append(uses, "range: "+src(x.X))
					}
				case *ast.CallExpr:
					for _, a := range x.Args {
						if isConf(a) {
							uses = append(uses, "call: "+src(x))
							break
						}
					}
				}
				return true
			})
		}
		fmt.Fprintf(&sb, "\n/-- main(): assignments to the file configuration and calls that receive it, in source order -/\ndef mainConfUses : List String := %s\n", leanStrList(uses))
	}
	// ---- the cookie key: every expression that reaches into the session configuration (h.sess / session.Config
	// values), by enclosing function. The key pair lives in it; whoever learns either half can mint a cookie.
	if wf := parse(repo, "shovel/web/web.go"); wf != nil {
		var uses []string
		for _, d := range wf.Decls {
			fd, ok := d.(*ast.FuncDecl)
			if !ok || fd.Body == nil {
				continue
			}
			seen := map[string]bool{}
			ast.Inspect(fd.Body, func(n ast.Node) bool {
				sel, ok := n.(*ast.SelectorExpr)
				if !ok {
					return true
				}
				if sel.Sel.Name == "sess" {
					return true // the field itself; its uses are the enclosing expressions listed below
				}
				if inner, ok := sel.X.(*ast.SelectorExpr); ok && inner.Sel.Name == "sess" {
					if k := fd.Name.Name + ": " + src(sel); !seen[k] {
						seen[k] = true
						uses = append(uses, k)
					}
				}
				return true
			})
			// the whole configuration handed to somebody: &h.sess
			ast.Inspect(fd.Body, func(n ast.Node) bool {
				if u, ok := n.(*ast.UnaryExpr); ok && u.Op == token.AND {
					if inner, ok := u.X.(*ast.SelectorExpr); ok && inner.Sel.Name == "sess" {
						if c := enclosingCall(fd.Body, u); c != "" {
							if k := fd.Name.Name + ": " + c; !seen[k] {
								seen[k] = true
								uses = append(uses, k)
							}
						}
					}
				}
				return true
			})
		}
		fmt.Fprintf(&sb, "\n/-- every use of the session configuration (which holds the cookie key pair) in shovel/web/web.go:\n    field accesses `h.sess.X` and calls that receive `&h.sess`, by enclosing function -/\ndef sessUses : List String := %s\n", leanStrList(uses))
	}
	sb.WriteString("\nend Shovel.Gen.Routes\n")
	writeIfChanged(filepath.Join(out, "Routes.lean"), sb.String())
}

// ---- C16: identity columns and required fields ---------------------------------------------------

func genConfig(repo, out string) {
	f := parse(repo, "shovel/config/config.go")
	if f == nil {
		return
	}
	var possible []string
	if fn := findFunc(f, "", "AddUniqueIndex"); fn != nil {
		ast.Inspect(fn.Body, func(n ast.Node) bool {
			as, ok := n.(*ast.AssignStmt)
			if !ok || len(as.Lhs) != 1 || src(as.Lhs[0]) != "possible" {
				return true
			}
			if cl, ok := as.Rhs[0].(*ast.CompositeLit); ok {
				for _, el := range cl.Elts {
					if s, ok := strLit(el); ok {
						possible = append(possible, s)
					}
				}
			}
			return true
		})
	}
	if len(possible) == 0 {
		fail("config.AddUniqueIndex: `possible` list not recognised")
	}
	type addc struct{ name, typ, guard string }
	var adds []addc
	if fn := findFunc(f, "Integration", "AddRequiredFields"); fn != nil {
		var walk func(n ast.Node, guard string)
		walk = func(n ast.Node, guard string) {
			switch x := n.(type) {
			case *ast.BlockStmt:
				for _, st := range x.List {
					walk(st, guard)
				}
			case *ast.ExprStmt:
				if c, ok := x.X.(*ast.CallExpr); ok && src(c.Fun) == "add" && len(c.Args) == 2 {
					a, ok1 := strLit(c.Args[0])
					b, ok2 := strLit(c.Args[1])
					if ok1 && ok2 {
						adds = append(adds, addc{a, b, guard})
					}
				}
			case *ast.IfStmt:
				walk(x.Body, strings.TrimSpace(guard+" if:"+src(x.Cond)))
			case *ast.RangeStmt:
				walk(x.Body, strings.TrimSpace(guard+" range:"+src(x.X)))
			}
		}
		walk(fn.Body, "")
	}
	if len(adds) == 0 {
		fail("config.AddRequiredFields: add(...) calls not recognised")
	}
	var sb strings.Builder
	sb.WriteString("/- GENERATED by harness/cmd/extract from shovel/config/config.go — do not edit. -/\nnamespace Shovel.Gen.Config\n\n")
	sb.WriteString("/-- candidate columns of the generated unique index, in order -/\ndef possible : List String := " + leanList(possible) + "\n\n")
	sb.WriteString("/-- `add(name, type)` calls of AddRequiredFields with their guards -/\ndef required : List (String × String × String) := [\n")
	for i, a := range adds {
		fmt.Fprintf(&sb, "  (%s, %s, %s)", leanStr(a.name), leanStr(a.typ), leanStr(a.guard))
		if i+1 < len(adds) {
			sb.WriteString(",")
		}
		sb.WriteString("\n")
	}
	sb.WriteString("]\n\nend Shovel.Gen.Config\n")
	writeIfChanged(filepath.Join(out, "Config.lean"), sb.String())
}

func leanStrList(xs []string) string {
	var q []string
	for _, x := range xs {
		q = append(q, leanStr(x))
	}
	return "[" + strings.Join(q, ", ") + "]"
}

// enclosingCall: the callee of the innermost call in body that has target among its arguments
func enclosingCall(body ast.Node, target ast.Node) string {
	out := ""
	ast.Inspect(body, func(n ast.Node) bool {
		if c, ok := n.(*ast.CallExpr); ok {
			for _, a := range c.Args {
				if a == target {
					out = src(c.Fun)
				}
			}
		}
		return true
	})
	return out
}
