package main

// genExtra: further generated facts (routes, SQL, config tables) are added here.
func genExtra(repo, out string) {}
