package main

// translate.go is tie T3: a small Go -> Lean TRANSLATOR for pure leaf functions. Unlike the fact
// tables of T1 it regenerates executable DEFINITIONS (lean/Shovel/Gen/Code.lean) from the function
// bodies in /repo's working tree on every run; `Props/Code.lean` proves each generated definition
// equal to the hand-written model the property theorems are about. A source edit that changes what
// the function computes changes the generated definition and the equality proof no longer checks;
// a source shape outside the translated subset is reported loudly (the tie is broken).
//
// Subset: parameters and locals of type uint64 / uint8 / byte / int / bool / string / []byte; `var`,
// `:=`, `=`, `op=`, `++`; if / else; switch (tagless or on a value) with `default`; `return`;
// `for i := range b`, `for _, r := range s`, `for i := 0; i < len(b); i++` (translated to a
// structurally recursive walk over the elements) and `for cond { }` (translated with explicit fuel);
// struct receivers whose fields are assigned (`p.f = e` becomes a record update, the function
// returns the updated record). uint64 / byte arithmetic wraps explicitly (`% 2^64`, `% 256`).

import (
	"fmt"
	"go/ast"
	"go/token"
	"path/filepath"
	"strings"
)

type tr struct {
	fn      string            // Lean name of the function being translated
	types   map[string]string // Go variable -> "u64" | "u8" | "int" | "bool" | "str" | "bytes" | "rune" | "rec"
	retKind string            // "u64" | "res-u64" | "res-unit" | "rec" | "bool" | "u8"
	named   string            // named result variable ("" = none)
	aux     []string          // generated loop helpers (emitted before the function)
	nloop   int
	elemOf  map[string]string // index variable -> element variable (inside an element walk over `seq`)
	seqOf   map[string]string // index variable -> sequence it walks
	params  []string          // extra parameters threaded into helpers (all function parameters)
	recv    string            // receiver name for record methods
	fields  map[string]string // receiver fields -> kind
	bad     bool
}

func (t *tr) unsupported(n ast.Node, why string) string {
	t.bad = true
	fail("translate %s: unsupported %s: %s", t.fn, why, strings.ReplaceAll(src(n), "\n", " "))
	return "sorry_unsupported"
}

func kindOf(e ast.Expr) string {
	switch src(e) {
	case "uint64":
		return "u64"
	case "uint8", "byte":
		return "u8"
	case "int":
		return "int"
	case "bool":
		return "bool"
	case "string":
		return "str"
	case "[]byte":
		return "bytes"
	case "rune":
		return "rune"
	case "error":
		return "error"
	}
	return ""
}

const two64 = "18446744073709551616"

// typeOf: the kind of an expression (enough to choose the wrap-around)
func (t *tr) typeOf(e ast.Expr) string {
	switch x := e.(type) {
	case *ast.Ident:
		if k, ok := t.types[x.Name]; ok {
			return k
		}
		if x.Name == "true" || x.Name == "false" {
			return "bool"
		}
	case *ast.BasicLit:
		if x.Kind == token.CHAR {
			return "u8"
		}
		if x.Kind == token.STRING {
			return "str"
		}
		return "lit"
	case *ast.ParenExpr:
		return t.typeOf(x.X)
	case *ast.CallExpr:
		if k := kindOf(x.Fun); k != "" && len(x.Args) == 1 {
			return k
		}
		if id, ok := x.Fun.(*ast.Ident); ok && id.Name == "len" {
			return "int"
		}
		return "bool"
	case *ast.IndexExpr:
		return "u8"
	case *ast.SelectorExpr:
		if id, ok := x.X.(*ast.Ident); ok && id.Name == t.recv {
			return t.fields[x.Sel.Name]
		}
	case *ast.UnaryExpr:
		if x.Op == token.NOT {
			return "bool"
		}
		return t.typeOf(x.X)
	case *ast.BinaryExpr:
		switch x.Op {
		case token.LAND, token.LOR, token.EQL, token.NEQ, token.LSS, token.LEQ, token.GTR, token.GEQ:
			return "bool"
		}
		a, b := t.typeOf(x.X), t.typeOf(x.Y)
		if x.Op == token.SHL || x.Op == token.SHR {
			return a
		}
		if a == "lit" {
			return b
		}
		return a
	}
	return ""
}

func (t *tr) wrap(kind, s string) string {
	switch kind {
	case "u64":
		return "((" + s + ") % " + two64 + ")"
	case "u8":
		return "((" + s + ") % 256)"
	}
	return "(" + s + ")"
}

func (t *tr) expr(e ast.Expr) string {
	switch x := e.(type) {
	case *ast.Ident:
		switch x.Name {
		case "true", "false":
			return x.Name
		case "nil":
			return "nil"
		}
		return x.Name
	case *ast.BasicLit:
		switch x.Kind {
		case token.INT:
			if strings.HasPrefix(x.Value, "0x") {
				var n uint64
				fmt.Sscanf(x.Value[2:], "%x", &n)
				return fmt.Sprint(n)
			}
			return x.Value
		case token.CHAR:
			r := []rune(strings.Trim(x.Value, "'"))
			if len(r) == 1 {
				return fmt.Sprint(int(r[0]))
			}
		case token.STRING:
			return x.Value
		}
		return t.unsupported(e, "literal")
	case *ast.ParenExpr:
		return "(" + t.expr(x.X) + ")"
	case *ast.UnaryExpr:
		if x.Op == token.NOT {
			return "(!" + t.expr(x.X) + ")"
		}
		return t.unsupported(e, "unary operator")
	case *ast.SelectorExpr:
		if id, ok := x.X.(*ast.Ident); ok && id.Name == t.recv {
			return t.recv + "." + x.Sel.Name
		}
		return t.unsupported(e, "selector")
	case *ast.IndexExpr:
		// b[i] inside the element walk over b with index i: the current element
		if id, ok := x.Index.(*ast.Ident); ok {
			if el, ok := t.elemOf[id.Name]; ok && src(x.X) == t.seqOf[id.Name] {
				return el
			}
		}
		return t.unsupported(e, "index expression (only the walked sequence at the loop index)")
	case *ast.CallExpr:
		if k := kindOf(x.Fun); k != "" && len(x.Args) == 1 {
			from := t.typeOf(x.Args[0])
			a := t.expr(x.Args[0])
			switch {
			case k == "u64" && (from == "u8" || from == "u64" || from == "lit"):
				return a
			case k == "u8":
				return t.wrap("u8", a)
			}
			return t.unsupported(e, "conversion")
		}
		switch src(x.Fun) {
		case "len":
			return "(" + t.expr(x.Args[0]) + ").length"
		case "unicode.IsLetter":
			return "(isLetter " + t.expr(x.Args[0]) + ")"
		case "unicode.IsDigit":
			return "(isDigit " + t.expr(x.Args[0]) + ")"
		}
		return t.unsupported(e, "call")
	case *ast.BinaryExpr:
		a, b := t.expr(x.X), t.expr(x.Y)
		k := t.typeOf(e)
		switch x.Op {
		case token.LAND:
			return "(" + a + " && " + b + ")"
		case token.LOR:
			return "(" + a + " || " + b + ")"
		case token.EQL:
			return "(" + a + " == " + b + ")"
		case token.NEQ:
			return "(" + a + " != " + b + ")"
		case token.LSS:
			return "decide (" + a + " < " + b + ")"
		case token.LEQ:
			return "decide (" + a + " ≤ " + b + ")"
		case token.GTR:
			return "decide (" + a + " > " + b + ")"
		case token.GEQ:
			return "decide (" + a + " ≥ " + b + ")"
		case token.ADD:
			return t.wrap(k, a+" + "+b)
		case token.SUB:
			switch k {
			case "u8":
				return t.wrap(k, a+" + 256 - "+b)
			case "u64":
				return t.wrap(k, a+" + "+two64+" - "+b)
			}
			return t.unsupported(e, "subtraction on this type")
		case token.SHL:
			return t.wrap(k, a+" * 2 ^ "+b)
		case token.SHR:
			return "(" + a + " / 2 ^ " + b + ")"
		case token.OR:
			return "(" + a + " ||| " + b + ")"
		case token.AND:
			return "(" + a + " &&& " + b + ")"
		}
		return t.unsupported(e, "binary operator")
	}
	return t.unsupported(e, "expression")
}

// ret: the Lean term for `return <results>`
func (t *tr) ret(results []ast.Expr) string {
	switch t.retKind {
	case "rec":
		return t.recv
	case "res-unit":
		if len(results) == 1 && src(results[0]) == "nil" {
			return "Res.ok ()"
		}
		return "Res.err"
	case "res-u64":
		if len(results) == 2 && src(results[1]) == "nil" {
			return "Res.ok " + t.expr(results[0])
		}
		return "Res.err"
	}
	if len(results) == 0 && t.named != "" {
		return t.named
	}
	if len(results) == 1 {
		return t.expr(results[0])
	}
	t.bad = true
	fail("translate %s: unsupported return", t.fn)
	return "sorry_unsupported"
}

func assigned(stmts []ast.Stmt, declaredInside map[string]bool, out *[]string, seen map[string]bool) {
	for _, st := range stmts {
		ast.Inspect(st, func(n ast.Node) bool {
			switch x := n.(type) {
			case *ast.AssignStmt:
				for _, l := range x.Lhs {
					var name string
					switch y := l.(type) {
					case *ast.Ident:
						name = y.Name
					case *ast.SelectorExpr:
						name = src(y.X)
					}
					if x.Tok == token.DEFINE || name == "" {
						if id, ok := l.(*ast.Ident); ok && x.Tok == token.DEFINE {
							declaredInside[id.Name] = true
						}
						continue
					}
					if !declaredInside[name] && !seen[name] {
						seen[name] = true
						*out = append(*out, name)
					}
				}
			case *ast.IncDecStmt:
				if id, ok := x.X.(*ast.Ident); ok && !declaredInside[id.Name] && !seen[id.Name] {
					seen[id.Name] = true
					*out = append(*out, id.Name)
				}
			case *ast.DeclStmt:
				if gd, ok := x.Decl.(*ast.GenDecl); ok {
					for _, sp := range gd.Specs {
						if vs, ok := sp.(*ast.ValueSpec); ok {
							for _, n := range vs.Names {
								declaredInside[n.Name] = true
							}
						}
					}
				}
			}
			return true
		})
	}
}

func tuple(xs []string) string {
	if len(xs) == 0 {
		return "()"
	}
	return "(" + strings.Join(xs, ", ") + ")"
}

// stmts translates a statement list; `k` is the Lean term for what follows it (falling off the end).
// inLoop: `k` is the loop's "next iteration" term and `return` must be wrapped as an early exit.
func (t *tr) stmts(list []ast.Stmt, k string, inLoop bool) string {
	if len(list) == 0 {
		return k
	}
	st, rest := list[0], list[1:]
	cont := func() string { return t.stmts(rest, k, inLoop) }
	wrapRet := func(r string) string {
		if inLoop {
			return "Ctl.ret (" + r + ")"
		}
		return r
	}
	switch x := st.(type) {
	case *ast.DeclStmt:
		gd := x.Decl.(*ast.GenDecl)
		out := ""
		for _, sp := range gd.Specs {
			vs, ok := sp.(*ast.ValueSpec)
			if !ok || len(vs.Values) > 0 || vs.Type == nil {
				return t.unsupported(st, "declaration")
			}
			for _, n := range vs.Names {
				kd := kindOf(vs.Type)
				t.types[n.Name] = kd
				zero := "0"
				if kd == "bool" {
					zero = "false"
				}
				out += "let " + n.Name + " := " + zero + "\n"
			}
		}
		return out + cont()
	case *ast.AssignStmt:
		if len(x.Lhs) != 1 || len(x.Rhs) != 1 {
			return t.unsupported(st, "multiple assignment")
		}
		rhs := t.expr(x.Rhs[0])
		switch l := x.Lhs[0].(type) {
		case *ast.Ident:
			if x.Tok == token.DEFINE {
				t.types[l.Name] = t.typeOf(x.Rhs[0])
			}
			kd := t.types[l.Name]
			switch x.Tok {
			case token.ASSIGN, token.DEFINE:
			case token.ADD_ASSIGN:
				rhs = t.wrap(kd, l.Name+" + "+rhs)
			case token.SHL_ASSIGN:
				rhs = t.wrap(kd, l.Name+" * 2 ^ "+rhs)
			case token.SHR_ASSIGN:
				rhs = "(" + l.Name + " / 2 ^ " + rhs + ")"
			case token.OR_ASSIGN:
				rhs = "(" + l.Name + " ||| " + rhs + ")"
			default:
				return t.unsupported(st, "assignment operator")
			}
			return "let " + l.Name + " := " + rhs + "\n" + cont()
		case *ast.SelectorExpr:
			if id, ok := l.X.(*ast.Ident); ok && id.Name == t.recv && x.Tok == token.ASSIGN {
				return "let " + t.recv + " := { " + t.recv + " with " + l.Sel.Name + " := " + rhs + " }\n" + cont()
			}
		}
		return t.unsupported(st, "assignment target")
	case *ast.IncDecStmt:
		id, ok := x.X.(*ast.Ident)
		if !ok {
			return t.unsupported(st, "inc/dec target")
		}
		if x.Tok == token.INC {
			return "let " + id.Name + " := " + t.wrap(t.types[id.Name], id.Name+" + 1") + "\n" + cont()
		}
		return t.unsupported(st, "decrement")
	case *ast.ReturnStmt:
		return wrapRet(t.ret(x.Results))
	case *ast.IfStmt:
		if x.Init != nil {
			return t.unsupported(st, "if with init")
		}
		c := t.expr(x.Cond)
		thenB := t.stmts(append(append([]ast.Stmt{}, x.Body.List...), rest...), k, inLoop)
		var elseB string
		switch e := x.Else.(type) {
		case nil:
			elseB = cont()
		case *ast.BlockStmt:
			elseB = t.stmts(append(append([]ast.Stmt{}, e.List...), rest...), k, inLoop)
		case *ast.IfStmt:
			elseB = t.stmts(append([]ast.Stmt{e}, rest...), k, inLoop)
		}
		return "if " + c + " then\n" + indent(thenB) + "\nelse\n" + indent(elseB)
	case *ast.SwitchStmt:
		if x.Init != nil {
			return t.unsupported(st, "switch with init")
		}
		var def []ast.Stmt
		type arm struct {
			cond string
			body []ast.Stmt
		}
		var arms []arm
		for _, c := range x.Body.List {
			cc := c.(*ast.CaseClause)
			if cc.List == nil {
				def = cc.Body
				continue
			}
			var conds []string
			for _, e := range cc.List {
				if x.Tag != nil {
					conds = append(conds, "("+t.expr(x.Tag)+" == "+t.expr(e)+")")
				} else {
					conds = append(conds, t.expr(e))
				}
			}
			arms = append(arms, arm{strings.Join(conds, " || "), cc.Body})
		}
		out := t.stmts(append(append([]ast.Stmt{}, def...), rest...), k, inLoop)
		for i := len(arms) - 1; i >= 0; i-- {
			body := t.stmts(append(append([]ast.Stmt{}, arms[i].body...), rest...), k, inLoop)
			out = "if " + arms[i].cond + " then\n" + indent(body) + "\nelse\n" + indent(out)
		}
		return out
	case *ast.RangeStmt:
		return t.loop(st, x.Body.List, rest, k, inLoop, x)
	case *ast.ForStmt:
		return t.loop(st, x.Body.List, rest, k, inLoop, x)
	}
	return t.unsupported(st, "statement")
}

func indent(s string) string {
	lines := strings.Split(s, "\n")
	for i := range lines {
		lines[i] = "  " + lines[i]
	}
	return strings.Join(lines, "\n")
}

// loop: a helper definition by structural recursion (element walks) or on fuel (`for cond {}`).
func (t *tr) loop(st ast.Stmt, body, rest []ast.Stmt, k string, inLoop bool, node ast.Node) string {
	if inLoop {
		return t.unsupported(st, "nested loop")
	}
	t.nloop++
	name := fmt.Sprintf("%s.loop%d", t.fn, t.nloop)
	var state []string
	assigned(body, map[string]bool{}, &state, map[string]bool{})
	// loop-carried state: variables assigned in the body that exist outside it
	var carried []string
	for _, v := range state {
		if _, ok := t.types[v]; ok || v == t.recv {
			carried = append(carried, v)
		}
	}
	stTuple := tuple(carried)
	var hp []string
	for _, p := range t.params {
		if p != "fuel" {
			hp = append(hp, p)
		}
	}
	paramSig := strings.Join(hp, " ")
	hsig := t.sigOf(hp)
	after := t.stmts(rest, k, false)
	matchAfter := func(call string) string {
		return "match " + call + " with\n  | Ctl.ret r => r\n  | Ctl.next " + stTuple + " =>\n" + indent(indent(after))
	}
	switch x := node.(type) {
	case *ast.RangeStmt:
		seq := src(x.X)
		kd := t.types[seq]
		if kd != "str" && kd != "bytes" {
			return t.unsupported(st, "range over this type")
		}
		elem := "x"
		saveE, saveS := t.elemOf, t.seqOf
		t.elemOf, t.seqOf = map[string]string{}, map[string]string{}
		if id, ok := x.Value.(*ast.Ident); ok && id.Name != "_" {
			elem = id.Name // for _, r := range s
			t.types[elem] = "rune"
		} else if id, ok := x.Key.(*ast.Ident); ok && id.Name != "_" {
			t.elemOf[id.Name], t.seqOf[id.Name] = elem, seq // for i := range b : b[i] is the element
			t.types[elem] = "u8"
		}
		b := t.stmts(body, "Ctl.next "+stTuple, true)
		t.elemOf, t.seqOf = saveE, saveS
		def := fmt.Sprintf("/-- one iteration -/\ndef %s.body %s (%s : Nat) : %s → Ctl %s %s\n  | %s =>\n%s\n\ndef %s %s : List Nat → %s → Ctl %s %s\n  | [], st => Ctl.next st\n  | %s :: rest, st =>\n    match %s.body %s %s st with\n    | Ctl.ret r => Ctl.ret r\n    | Ctl.next st' => %s %s rest st'\n",
			name, hsig, elem, t.stType(carried), t.stType(carried), t.retType(), stTuple, indent(indent(b)),
			name, hsig, t.stType(carried), t.stType(carried), t.retType(), elem, name, paramSig, elem, name, paramSig)
		t.aux = append(t.aux, def)
		return matchAfter(fmt.Sprintf("%s %s %s %s", name, paramSig, seq, stTuple))
	case *ast.ForStmt:
		if x.Init != nil && x.Post != nil && x.Cond != nil {
			// for i := 0; i < len(b); i++ : the element walk
			as, ok1 := x.Init.(*ast.AssignStmt)
			inc, ok2 := x.Post.(*ast.IncDecStmt)
			cond, ok3 := x.Cond.(*ast.BinaryExpr)
			if ok1 && ok2 && ok3 && as.Tok == token.DEFINE && src(as.Rhs[0]) == "0" && inc.Tok == token.INC && cond.Op == token.LSS && src(cond.X) == src(as.Lhs[0]) && strings.HasPrefix(src(cond.Y), "len(") {
				seq := strings.TrimSuffix(strings.TrimPrefix(src(cond.Y), "len("), ")")
				idx := src(as.Lhs[0])
				saveE, saveS := t.elemOf, t.seqOf
				t.elemOf, t.seqOf = map[string]string{idx: "x"}, map[string]string{idx: seq}
				t.types["x"] = "u8"
				b := t.stmts(body, "Ctl.next "+stTuple, true)
				t.elemOf, t.seqOf = saveE, saveS
				def := fmt.Sprintf("/-- one iteration -/\ndef %s.body %s (x : Nat) : %s → Ctl %s %s\n  | %s =>\n%s\n\ndef %s %s : List Nat → %s → Ctl %s %s\n  | [], st => Ctl.next st\n  | x :: rest, st =>\n    match %s.body %s x st with\n    | Ctl.ret r => Ctl.ret r\n    | Ctl.next st' => %s %s rest st'\n",
					name, hsig, t.stType(carried), t.stType(carried), t.retType(), stTuple, indent(indent(b)),
					name, hsig, t.stType(carried), t.stType(carried), t.retType(), name, paramSig, name, paramSig)
				t.aux = append(t.aux, def)
				return matchAfter(fmt.Sprintf("%s %s %s %s", name, paramSig, seq, stTuple))
			}
			return t.unsupported(st, "three-clause loop of this shape")
		}
		if x.Init == nil && x.Post == nil && x.Cond != nil {
			// for cond { body }: explicit fuel; running out of fuel is reported (and proved not to happen)
			c := t.expr(x.Cond)
			b := t.stmts(body, "Ctl.next "+stTuple, true)
			def := fmt.Sprintf("/-- the loop condition -/\ndef %s.cond %s : %s → Bool\n  | %s => %s\n\n/-- one iteration -/\ndef %s.body %s : %s → Ctl %s %s\n  | %s =>\n%s\n\n/-- `none`: out of fuel -/\ndef %s %s : Nat → %s → Option (Ctl %s %s)\n  | 0, _ => none\n  | fuel + 1, st =>\n    if %s.cond %s st then\n      match %s.body %s st with\n      | Ctl.ret r => some (Ctl.ret r)\n      | Ctl.next st' => %s %s fuel st'\n    else some (Ctl.next st)\n",
				name, hsig, t.stType(carried), stTuple, c,
				name, hsig, t.stType(carried), t.stType(carried), t.retType(), stTuple, indent(indent(b)),
				name, hsig, t.stType(carried), t.stType(carried), t.retType(), name, paramSig, name, paramSig, name, paramSig)
			t.aux = append(t.aux, def)
			return "match " + fmt.Sprintf("%s %s fuel %s", name, paramSig, stTuple) + " with\n  | none => " + t.fuelOut() + "\n  | some (Ctl.ret r) => r\n  | some (Ctl.next " + stTuple + ") =>\n" + indent(indent(after))
		}
	}
	return t.unsupported(st, "loop")
}

func (t *tr) fuelOut() string {
	switch t.retKind {
	case "res-u64", "res-unit":
		return "Res.panic"
	}
	return "0"
}

func (t *tr) stType(vars []string) string {
	if len(vars) == 0 {
		return "Unit"
	}
	var ts []string
	for _, v := range vars {
		ts = append(ts, t.leanType(v))
	}
	if len(ts) == 1 {
		return ts[0]
	}
	return "(" + strings.Join(ts, " × ") + ")"
}

func (t *tr) leanType(v string) string {
	if v == t.recv {
		return "Rec_" + strings.ReplaceAll(t.fn, ".", "_")
	}
	switch t.types[v] {
	case "bool":
		return "Bool"
	case "str", "bytes":
		return "(List Nat)"
	}
	return "Nat"
}

func (t *tr) retType() string {
	switch t.retKind {
	case "res-u64":
		return "(Res Nat)"
	case "res-unit":
		return "(Res Unit)"
	case "bool":
		return "Bool"
	case "rec":
		return t.leanType(t.recv)
	}
	return "Nat"
}

func (t *tr) sig() string { return t.sigOf(t.params) }

func (t *tr) sigOf(params []string) string {
	var ps []string
	for _, p := range params {
		ps = append(ps, "("+p+" : "+t.paramType(p)+")")
	}
	return strings.Join(ps, " ")
}

func (t *tr) paramType(p string) string {
	if p == "isLetter" || p == "isDigit" {
		return "Nat → Bool"
	}
	if p == "fuel" {
		return "Nat"
	}
	return t.leanType(p)
}

type target struct {
	file, recv, name, lean string
	extra                  []string // extra parameters (library predicates modelled as parameters, fuel)
}

func genCode(repo, out string) {
	targets := []target{
		{"wstrings/strings.go", "", "Safe", "safe", []string{"isLetter", "isDigit"}},
		{"bint/bint.go", "", "Decode", "bintDecode", nil},
		{"bint/bint.go", "", "size", "bintSize", []string{"fuel"}},
		{"eth/types.go", "", "decode", "hexDecode", nil},
		{"dig/dig.go", "filterResults", "add", "frsAdd", nil},
		{"dig/dig.go", "filterResults", "accept", "frsAccept", nil},
	}
	var sb strings.Builder
	sb.WriteString("import Shovel.Model.Basic\n/- GENERATED by harness/cmd/extract (translate.go) from the function bodies in the working tree — do not edit. -/\nset_option linter.unusedVariables false\nnamespace Shovel.Gen.Code\nopen Shovel\n\n")
	sb.WriteString("/-- outcome of one loop iteration / of a loop: go on with the carried state, or return from the function -/\ninductive Ctl (σ ρ : Type) where\n  | next (s : σ)\n  | ret (r : ρ)\n\n")
	recDone := map[string]bool{}
	for _, tg := range targets {
		f := parse(repo, tg.file)
		if f == nil {
			continue
		}
		fd := findFunc(f, tg.recv, tg.name)
		if fd == nil || fd.Body == nil {
			fail("translate: %s.%s not found in %s", tg.recv, tg.name, tg.file)
			continue
		}
		t := &tr{fn: tg.lean, types: map[string]string{}, elemOf: map[string]string{}, seqOf: map[string]string{}, fields: map[string]string{}}
		t.params = append(t.params, tg.extra...)
		// receiver: a record whose fields come from the struct declaration
		if fd.Recv != nil {
			t.recv = fd.Recv.List[0].Names[0].Name
			t.types[t.recv] = "rec"
			recName := "Rec_" + tg.recv
			for _, d := range f.Decls {
				gd, ok := d.(*ast.GenDecl)
				if !ok {
					continue
				}
				for _, sp := range gd.Specs {
					ts, ok := sp.(*ast.TypeSpec)
					if !ok || ts.Name.Name != tg.recv {
						continue
					}
					stt, ok := ts.Type.(*ast.StructType)
					if !ok {
						continue
					}
					var fl []string
					for _, fld := range stt.Fields.List {
						kd := kindOf(fld.Type)
						lt := map[string]string{"str": "String", "bool": "Bool", "u64": "Nat", "u8": "Nat", "int": "Nat"}[kd]
						if lt == "" {
							fail("translate %s: field type %s", tg.lean, src(fld.Type))
						}
						for _, n := range fld.Names {
							t.fields[n.Name] = kd
							fl = append(fl, fmt.Sprintf("  %s : %s", n.Name, lt))
						}
					}
					if !recDone[recName] {
						recDone[recName] = true
						fmt.Fprintf(&sb, "/-- `type %s struct` of %s -/\nstructure %s where\n%s\n  deriving DecidableEq, Repr\n\n", tg.recv, tg.file, recName, strings.Join(fl, "\n"))
					}
				}
			}
			t.params = append(t.params, t.recv)
		}
		for _, p := range fd.Type.Params.List {
			for _, n := range p.Names {
				t.types[n.Name] = kindOf(p.Type)
				if t.types[n.Name] == "" {
					fail("translate %s: parameter type %s", tg.lean, src(p.Type))
				}
				t.params = append(t.params, n.Name)
			}
		}
		// result kind
		var rk []string
		if fd.Type.Results != nil {
			for _, r := range fd.Type.Results.List {
				rk = append(rk, kindOf(r.Type))
				for _, n := range r.Names {
					t.named = n.Name
					t.types[n.Name] = kindOf(r.Type)
				}
			}
		}
		switch strings.Join(rk, ",") {
		case "u64":
			t.retKind = "u64"
		case "u8":
			t.retKind = "u8"
		case "bool":
			t.retKind = "bool"
		case "u64,error":
			t.retKind = "res-u64"
		case "error":
			t.retKind = "res-unit"
		case "":
			if t.recv != "" {
				t.retKind = "rec"
			} else {
				fail("translate %s: no result", tg.lean)
			}
		default:
			fail("translate %s: result types %v", tg.lean, rk)
		}
		fallOff := "sorry_unsupported"
		if t.retKind == "rec" {
			fallOff = t.recv
		} else if t.named != "" {
			fallOff = t.named
		}
		pre := ""
		if t.named != "" {
			pre = "let " + t.named + " := 0\n"
		}
		// leanType of the receiver parameter
		body := pre + t.stmts(fd.Body.List, fallOff, false)
		if strings.Contains(body, "sorry_unsupported") && !t.bad {
			fail("translate %s: control can fall off the end of the function", tg.lean)
		}
		for _, a := range t.aux {
			sb.WriteString(strings.ReplaceAll(a, "Rec_"+strings.ReplaceAll(t.fn, ".", "_"), "Rec_"+tg.recv))
			sb.WriteString("\n")
		}
		sigs := strings.ReplaceAll(t.sig(), "Rec_"+strings.ReplaceAll(t.fn, ".", "_"), "Rec_"+tg.recv)
		rt := strings.ReplaceAll(t.retType(), "Rec_"+strings.ReplaceAll(t.fn, ".", "_"), "Rec_"+tg.recv)
		fmt.Fprintf(&sb, "/-- translated from `%s` in %s -/\ndef %s %s : %s :=\n%s\n\n", strings.TrimPrefix(tg.recv+"."+tg.name, "."), tg.file, tg.lean, sigs, rt, indent(body))
	}
	sb.WriteString("end Shovel.Gen.Code\n")
	writeIfChanged(filepath.Join(out, "Code.lean"), sb.String())
}
