// startstress starts the real shovel binary repeatedly and counts start-up crashes (a diagnostic aid,
// not a registered check): startstress [n]
package main

import (
	"fmt"
	"os"
	"strconv"

	"verifharness/props"
)

func main() {
	n := 100
	if len(os.Args) > 1 {
		n, _ = strconv.Atoi(os.Args[1])
	}
	c, sample := props.StartupStress(n)
	fmt.Printf("starts=%d crashed=%d\n%s\n", n, c, sample)
}
