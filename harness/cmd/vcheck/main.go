// vcheck runs the correspondence (K) and oracle (O) parts of one property check against the
// real shovel code built from /repo's working tree with -tags verif, combines them with the
// proof verdict (P) produced by the `check` script, writes evidence and prints the verdict.
package main

import (
	"encoding/json"
	"flag"
	"fmt"
	"io"
	"log/slog"
	"os"
	"sort"
	"time"

	"verifharness/core"
	"verifharness/props"
)

type proofInfo struct {
	OK          bool              `json:"ok"`
	Obligations []core.Obligation `json:"obligations"`
	CheckerCmd  string            `json:"checker_cmd"`
	Axioms      []string          `json:"axioms"`
	Log         string            `json:"log"`
	Level       string            `json:"level"`
	Assumptions []string          `json:"assumptions"`
	TrustedBase []string          `json:"trusted_base"`
}

func main() {
	var (
		prop   = flag.String("prop", "", "property id")
		tier   = flag.String("tier", "quick", "quick|thorough")
		seed   = flag.Uint64("seed", 1, "seed")
		verif  = flag.String("verif", "/verif", "verif dir")
		repo   = flag.String("repo", "/repo", "repo dir")
		driver = flag.String("driver", "/verif/lean/.lake/build/bin/driver", "lean driver exe")
		pfile  = flag.String("proof", "", "proof info json written by ./check")
		replay = flag.String("replay", "", "replay file")
	)
	flag.Parse()
	t0 := time.Now()
	slog.SetDefault(slog.New(slog.NewTextHandler(io.Discard, nil))) // shovel logs every step
	run, ok := props.Registry[*prop]
	if !ok {
		fmt.Fprintf(os.Stderr, "no runner for %s\n", *prop)
		os.Exit(2)
	}
	var pi proofInfo
	if *pfile != "" {
		b, err := os.ReadFile(*pfile)
		if err != nil || json.Unmarshal(b, &pi) != nil {
			fmt.Fprintf(os.Stderr, "cannot read proof info %s\n", *pfile)
			os.Exit(2)
		}
	} else {
		pi.OK = true
	}
	if *replay != "" {
		b, _ := os.ReadFile(*replay)
		fmt.Printf("replay file %s:\n%s\n", *replay, b)
	}
	findings := core.LoadFindings(*verif)
	mk := func(seed uint64, search bool) *core.Env {
		return &core.Env{Prop: *prop, Tier: *tier, Seed: seed, Rand: core.NewRand(seed),
			VerifDir: *verif, RepoDir: *repo, Driver: *driver, Search: search}
	}
	env := mk(*seed, false)
	if err := run(env); err != nil {
		fmt.Fprintf(os.Stderr, "runner error: %v\n", err)
		os.Exit(2)
	}
	rep, err := core.Evaluate(env, findings)
	if err != nil {
		fmt.Fprintf(os.Stderr, "evaluate: %v\n", err)
		os.Exit(2)
	}
	extraOK := true
	for _, o := range rep.Obligations {
		if !o.OK {
			extraOK = false
		}
	}
	tieBroken := !pi.OK || len(rep.KFail) > 0 || !extraOK
	searched := 0
	if tieBroken && len(rep.OFail) == 0 {
		// search phase: wider generators, several seeds, oracle only
		tSearch := time.Now()
		for s := uint64(1); s <= 3 && len(rep.OFail) == 0 && (s == 1 || time.Since(tSearch) < 3*time.Minute); s++ {
			e2 := mk(*seed*1000+s, true)
			if err := run(e2); err != nil {
				break
			}
			r2, err := core.Evaluate(e2, findings)
			if err != nil {
				break
			}
			searched += r2.Evaluations
			rep.OFail = append(rep.OFail, r2.OFail...)
			for k, v := range r2.KnownHits {
				rep.KnownHits[k] += v
			}
		}
	}
	// ---- verdict
	exit := 0
	violations := 0
	for _, f := range findings {
		if f.Property == *prop && f.Status == "open" {
			fmt.Printf("KNOWN-FINDING: property=%s class=%s %s (reproduced on %d cases this run)\n", *prop, f.Class, f.What, rep.KnownHits[f.Class])
		}
	}
	if len(rep.OFail) > 0 {
		violations = len(rep.OFail)
		p := core.WriteReplay(*verif, *prop, *seed, "oracle", map[string]any{
			"property": *prop, "seed": *seed, "tier": *tier, "kind": "oracle failure: the implementation violates the specification on this input",
			"first": rep.OFail[0], "count": len(rep.OFail), "more": head(rep.OFail[1:], 9),
		})
		fmt.Printf("VIOLATION property=%s replay=%s\n", *prop, p)
		exit = 1
	} else if tieBroken {
		violations = 1
		var broken []string
		if !pi.OK {
			for _, o := range pi.Obligations {
				if !o.OK {
					broken = append(broken, "theorem/obligation "+o.Name+" no longer checks: "+o.Note)
				}
			}
			if len(broken) == 0 {
				broken = append(broken, "lean build / audit failed, see "+pi.Log)
			}
		}
		for _, o := range rep.Obligations {
			if !o.OK {
				broken = append(broken, "generated-fact obligation "+o.Name+": "+o.Note)
			}
		}
		if len(rep.KFail) > 0 {
			broken = append(broken, fmt.Sprintf("correspondence: model and implementation differ on %d of %d compared cases", len(rep.KFail), rep.ModelCompared))
		}
		p := core.WriteReplay(*verif, *prop, *seed, "tie", map[string]any{
			"property": *prop, "seed": *seed, "tier": *tier,
			"kind":     "the proof or the model-code correspondence no longer checks; no input violating the specification was found",
			"broken":   broken, "correspondence_failures": head(rep.KFail, 10), "searched_cases": searched,
		})
		fmt.Printf("VIOLATION property=%s replay=%s no-failing-input-found\n", *prop, p)
		exit = 1
	}
	// ---- evidence
	nobl, ndis := 0, 0
	var oblNames []any
	for _, o := range append(append([]core.Obligation{}, pi.Obligations...), rep.Obligations...) {
		nobl++
		if o.OK {
			ndis++
		}
		oblNames = append(oblNames, o.Name)
	}
	hist := map[string]int{}
	for _, k := range core.SortedKeys(rep.TagHist) {
		hist[k] = rep.TagHist[k]
	}
	cov := map[string]any{
		"obligations": nobl, "discharged": ndis, "obligation_names": oblNames,
		"checker_cmd":   pi.CheckerCmd,
		"trusted_base":  pi.TrustedBase,
		"axioms_used":   pi.Axioms,
		"evaluations":   rep.Evaluations,
		"distinct_nontrivial": rep.Distinct,
		"rule":          props.Rules[*prop],
		"samples":       rep.Samples,
		"traces_validated_against_impl": rep.ModelCompared,
		"oracle_checked":                rep.OracleChecked,
		"correspondence_failures":       len(rep.KFail),
		"oracle_failures":               len(rep.OFail),
		"known_finding_hits":            rep.KnownHits,
		"distribution":                  hist,
		"search_phase_cases":            searched,
	}
	if nobl == 0 {
		delete(cov, "checker_cmd")
	}
	for k, v := range rep.Notes {
		cov[k] = v
	}
	level := pi.Level
	if level == "" {
		level = "proof"
	}
	ev := core.Evidence{PropertyID: *prop, Tier: *tier, Seed: int64(*seed), Level: level, Coverage: cov,
		Assumptions: pi.Assumptions, WallS: core.Since(t0), Violations: violations}
	if err := core.WriteEvidence(*verif, ev); err != nil {
		fmt.Fprintf(os.Stderr, "evidence: %v\n", err)
		os.Exit(2)
	}
	tags := core.SortedKeys(rep.TagHist)
	sort.Strings(tags)
	fmt.Printf("%s tier=%s seed=%d proof=%v obligations=%d/%d cases=%d distinct_nontrivial=%d K-fail=%d O-fail=%d known=%v wall=%.1fs\n",
		*prop, *tier, *seed, pi.OK, ndis, nobl, rep.Evaluations, rep.Distinct, len(rep.KFail), len(rep.OFail), rep.KnownHits, core.Since(t0))
	os.Exit(exit)
}

func head[T any](xs []T, n int) []T {
	if len(xs) > n {
		return xs[:n]
	}
	return xs
}
