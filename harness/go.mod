module verifharness

go 1.21

require (
	filippo.io/age v1.0.0
	github.com/goccy/go-json v0.10.2
	github.com/holiman/uint256 v1.2.4
	github.com/indexsupply/shovel v0.0.0
	github.com/jackc/pgx/v5 v5.6.0
	golang.org/x/crypto v0.24.0
	nhooyr.io/websocket v1.8.10
)

require (
	blake.io/pqx v0.2.1 // indirect
	github.com/jackc/pgpassfile v1.0.0 // indirect
	github.com/jackc/pgservicefile v0.0.0-20240606120523-5a60cdf6a761 // indirect
	github.com/jackc/puddle/v2 v2.2.1 // indirect
	github.com/klauspost/compress v1.17.4 // indirect
	github.com/kr/session v0.2.1 // indirect
	github.com/xi2/xz v0.0.0-20171230120015-48954b6210f8 // indirect
	golang.org/x/sync v0.7.0 // indirect
	golang.org/x/sys v0.21.0 // indirect
	golang.org/x/text v0.16.0 // indirect
	kr.dev/errorfmt v0.1.1 // indirect
)

replace github.com/indexsupply/shovel => /repo
