module verifharness

go 1.21

require (
	github.com/goccy/go-json v0.10.2
	github.com/holiman/uint256 v1.2.4
	github.com/indexsupply/shovel v0.0.0
	github.com/jackc/pgx/v5 v5.6.0
)

require (
	github.com/klauspost/compress v1.17.4 // indirect
	golang.org/x/crypto v0.24.0 // indirect
	golang.org/x/sync v0.7.0 // indirect
	golang.org/x/sys v0.21.0 // indirect
	nhooyr.io/websocket v1.8.10 // indirect
)

replace github.com/indexsupply/shovel => /repo
