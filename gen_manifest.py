#!/usr/bin/env python3
"""Regenerates MANIFEST.json from props.json (claimed checks) + the fixed property list."""
import json
props = json.load(open("/verif/props.json"))
ids = [json.loads(l)["id"] for l in open("/verif/properties.jsonl")]
checks, na = [], []
for pid in ids:
    p = props.get(pid)
    if not p or p.get("pending"):
        na.append({"property_id": pid, "reason": (p or {}).get("pending", "check not built yet in this session (machine-checked-proof machinery for it is planned in DESIGN.md §6); not claimed")})
        continue
    checks.append({
        "property_id": pid,
        "quick_cmd": f"./check {pid} --tier quick",
        "thorough_cmd": f"./check {pid} --tier thorough",
        "evidence_file": f"/verif/evidence/{pid}.json",
        "replay_cmd_template": f"./check {pid} --replay {{path}}",
        "engine": "lean4-proof+correspondence",
        "level_claimed": {"category": p.get("level", "proof"), "text": p["level_text"], "design_ref": f"DESIGN.md §6 {pid}"},
        "level_note": p["level_note"],
        "technique": p.get("technique", "Lean 4 theorems about an executable model, tied to the code by differential correspondence runs"),
    })
m = {
    "version": 1,
    "setup_cmd": "./setup.sh",
    "hooks": {
        "guard": "verif",
        "enable": "go build -tags verif (harness module /verif/harness, replace github.com/indexsupply/shovel => /repo)",
        "baseline_off_cmd": "cd /repo && GOFLAGS=-mod=mod GOPROXY=off GOSUMDB=off go test -vet=off -count=1 ./bint/ ./eth/ ./jrpc2/ ./shovel/config/ ./shovel/glf/ ./wctx/ ./wos/ ./wslog/",
        "source_commits": json.load(open("/verif/hooks.json"))["commits"],
        "add_only": True,
    },
    "engines": [
        {"name": "lean4-proof+correspondence", "path": "/verif/check", "serves_properties": [c["property_id"] for c in checks],
         "kind_free_text": "Lean 4.33 theorems (lean/Shovel/Props) about executable models (lean/Shovel/Model), tied to /repo on every run by a go/ast fact extractor (harness/cmd/extract -> lean/Shovel/Gen) and by differential runs of the real code (harness, -tags verif) against the compiled Lean driver; oracle = executable Lean Spec"},
    ],
    "checks": checks,
    "not_applicable": na,
    "notes": "Every check: regenerate facts from /repo's working tree, lake build the property's theorems + axiom audit, build the harness against /repo with -tags verif, run model-vs-implementation correspondence and the Spec oracle; see DESIGN.md. known_findings.json lists repaired (fix: commits) and recorded defects.",
}
json.dump(m, open("/verif/MANIFEST.json", "w"), indent=1)
print(f"{len(checks)} checks, {len(na)} not claimed")
